#!/usr/bin/env python3
# regenerates DESIGN.md section 12 (between the SEEDED markers) from /verif/seeded/*/meta.json
import json, glob, os, re
V = os.path.dirname(os.path.abspath(__file__))
rows = []
for p in sorted(glob.glob(os.path.join(V, 'seeded', '*', 'meta.json'))):
    m = json.load(open(p))
    runs = m.get('checks_run', {})
    det = []
    for c, r in sorted(runs.items()):
        if r.get('detected'):
            sites = sorted({x['site'] for x in r.get('claims_violated', [])})
            det.append('%s: VIOLATION (%s)' % (c, ', '.join(sites[:4]) + (' …' if len(sites) > 4 else '')))
        else:
            det.append('%s: exit %s, not reported' % (c, r.get('exit')))
    rows.append('| %s | %s | %s | %s | %s |' % (m['seed'], m['breaks_property'], m.get('change', '').replace('|', '\\|'),
                                             m.get('needs_to_manifest', '').replace('|', '\\|'), '; '.join(det)))
table = '| seed | property | change | what it needs to manifest | checks run with the patch applied to /repo (quick tier) |\n|---|---|---|---|---|\n' + '\n'.join(rows)
d = open(os.path.join(V, 'DESIGN.md')).read()
if 'SEEDED_TABLE_PLACEHOLDER' in d:
    d = d.replace('SEEDED_TABLE_PLACEHOLDER', '<!-- SEEDED:BEGIN -->\n' + table + '\n<!-- SEEDED:END -->')
else:
    d = re.sub(r'<!-- SEEDED:BEGIN -->.*?<!-- SEEDED:END -->', lambda _: '<!-- SEEDED:BEGIN -->\n' + table + '\n<!-- SEEDED:END -->', d, flags=re.S)
open(os.path.join(V, 'DESIGN.md'), 'w').write(d)
print(len(rows), 'seeds')
