# C04  No user operation dilutes holders: a rate falls only through slashing
# For every hub operation: the rate implied by the post-state (pool / (post-supply + pending requests)) is not
# below the rate the handler synchronised at its start (i.e. after recognising slashing).
import z3
from smir.values import *   # noqa
from checks.hubmodel import *     # noqa

CRATES = ['basset_sei_hub', 'basset_sei_rewards_dispatcher']
BOUNDS = {'quick': {'validators': 1, 'delegations': 1}, 'thorough': {'validators': 2, 'delegations': 2}}
ASSUMPTIONS = ['E1, E3, E4 (DESIGN.md section 4)',
               'token supply after the transaction = supply before + Mint - Burn of the emitted messages '
               '(token side: C18: only the hub mints/burns)',
               'pre-rate = rate synchronised by the handler at its start; the synchronisation itself (slashing) is the '
               'only admitted way a rate may fall (C06)']
OUTSIDE = ['token transfers/sends do not touch hub state or supply (frame fact of C18/C16)',
           'WithdrawUnbonded, UpdateGlobalIndex, registry operations: write no pool/supply fields (frame obligations below)']

OPS4 = ['bond', 'bond_stsei', 'bond_rewards', 'unbond_bsei', 'unbond_stsei', 'convert_bsei', 'convert_stsei']


def mk(op):
    def ob(ctx):
        n = 1 if ctx.tier == 'quick' else 2
        W = HubWorld(ctx, n_validators=n, n_delegations=n)
        W.install()
        I = W.I
        nok = 0
        for st, res in start_op(W, op):
            if not is_ok(res):
                continue
            nok += 1
            e = effects(W, st, res)
            if e.sync is None:
                raise Gap('no synchronisation observed in ' + op)
            cb = e.Sb2 + e.batch['Qb']
            cs = e.Ss2 + e.batch['Qs']
            rb2 = spec_rate(I, st, e.post['Bb'], cb)
            rs2 = spec_rate(I, st, e.post['Bs'], cs)
            # a pool that was slashed to exactly zero while claims remain reports the definitional rate 1:
            # that corner is decided separately (key zero_pool)
            cb0 = W.Sb + W.Qb
            cs0 = W.Ss + W.Qs
            regular_b = z3.Or(e.sync['Bb'] >= 1, cb0 == 0)
            regular_s = z3.Or(e.sync['Bs'] >= 1, cs0 == 0)
            claims = [
                (z3.Implies(z3.And(cb > 0, regular_b), rb2 >= e.sync['rb']), 'bSei rate does not fall', op + ':bsei'),
                (z3.Implies(z3.And(cs > 0, regular_s), rs2 >= e.sync['rs']), 'stSei rate does not fall', op + ':stsei'),
                (z3.Implies(z3.And(cb > 0, z3.Not(regular_b)), rb2 >= e.sync['rb']),
                 'bSei rate does not fall (pool slashed to zero with outstanding claims)', 'zero_pool'),
                (z3.Implies(z3.And(cs > 0, z3.Not(regular_s)), rs2 >= e.sync['rs']),
                 'stSei rate does not fall (pool slashed to zero with outstanding claims)', 'zero_pool'),
            ]
            if op == 'bond_rewards':
                claims.append((z3.And(e.mint_b == 0, e.mint_s == 0), 're-bonding rewards mints nothing', op + ':nomint'))
                claims.append((e.post['Bs'] == e.sync['Bs'] + W.amount, 're-bonded amount is added to the stSei pool', op + ':pool'))
            mv = dict(W.mv)
            mv['__op'] = OPS4.index(op)
            ctx.require_all(st, claims, mv)
            ctx.witness('%s below peg' % op, st, [e.sync['rb'] < E, cb > 0], W.mv)
            ctx.witness('%s undelegation triggered' % op, st, [e.batch['id'] == W.batch_id + 1], W.mv)
        ctx.need_witness('Ok path of ' + op, nok > 0)
        ctx.expect_witness('below-peg region reachable (%s)' % op, 'below peg')
        if op.startswith('unbond'):
            ctx.expect_witness('undelegation branch reachable (%s)' % op, 'undelegation triggered')
    return ob


def frame(opname, msgf, senderf):
    """operations that must not touch pools, requests or supplies at all."""
    def ob(ctx):
        W = HubWorld(ctx, n_validators=1, n_delegations=1)
        W.closed = [('P', b'history_map'), ('B', b'v2_wait'), ('B', b'wait')]
        W.install()
        from checks.generic import raw_scenario
        raw_scenario(W, 'execute', msgf(W), senderf(W), querier=hub_querier_template(W))
        nok = 0
        for st, res in W.execute(msgf(W), senderf(W)):
            if not is_ok(res):
                continue
            nok += 1
            e = effects(W, st, res)
            ctx.require_all(st, [
                (z3.And(e.post['Bb'] == W.Bb, e.post['Bs'] == W.Bs), 'pools untouched', opname + ':pools'),
                (z3.And(e.batch['Qb'] == W.Qb, e.batch['Qs'] == W.Qs), 'pending requests untouched', opname + ':requests'),
                (z3.And(e.mint_b == 0, e.mint_s == 0, e.burn_b == 0, e.burn_s == 0), 'no mint/burn', opname + ':supply'),
            ], W.mv)
        ctx.need_witness('Ok path of ' + opname, nok > 0)
    return ob


OBLIGATIONS = [(op, mk(op)) for op in OPS4]
OBLIGATIONS.append(('frame_update_global_index', frame('update_global_index',
                                                      lambda W: W.msg('UpdateGlobalIndex', airdrop_hooks=NONE),
                                                      lambda W: W.updater)))
OBLIGATIONS.append(('frame_redelegate_proxy', frame('redelegate_proxy',
                                                   lambda W: W.msg('RedelegateProxy', src_validator=W.I.S('dval0'),
                                                                   redelegations=VecV([Agg('()', (W.I.S('rval0'), W.mk.coin(W.iv('red_amt', 0, CAP), W.denom)))])),
                                                   lambda W: W.registry)))


def _backed(op):
    """what keeps a rate from falling at the *next* synchronisation: everything booked by a bond is also delegated (two registered
    validators in any order), otherwise the shortfall is written off as a phantom slash. World, claims and replay of C02."""
    def ob(ctx):
        from checks.c02 import mk as mk2
        return mk2(op, 2, 1)(ctx)
    return ob


for _op in ('bond', 'bond_stsei', 'bond_rewards'):
    OBLIGATIONS.append(('backed_%s_v2' % _op, _backed(_op)))


def _withdraw_frame(ctx):
    """WithdrawUnbonded (with a release) writes no pool, request or supply: world and replay of C01's release obligation"""
    from checks.c01 import ob_release
    return ob_release(1, 0, only={'release:pools'})(ctx)


OBLIGATIONS.append(('frame_withdraw_unbonded', _withdraw_frame))


def _rebond_message(ctx):
    """'re-bonding staking rewards raises the stSei rate and mints no stSei' across the two contracts: the message with which the
    dispatcher re-bonds the stSei share is BondRewards (the only hub entry point that books coins without minting), addressed to
    the hub, carrying the whole remainder; any other contract call is a violation (world, claims and replay of C17's
    dispatch_rewards obligation)"""
    from checks.c17 import ob_dispatch
    from checks.generic import ClaimFilter
    return ob_dispatch(ClaimFilter(ctx, lambda k: k in ('dispatch:call', 'dispatch:rebond_target', 'dispatch:rebond')))


OBLIGATIONS.append(('rebond_message_is_bond_rewards', _rebond_message))


def replay_any(v, run_scenario):
    key0 = v.get('key') or ':'
    if key0.startswith('dispatch:'):
        from smir.replay import generic_replay
        import checks.c17 as c17_
        return generic_replay(c17_)(v, run_scenario)
    if key0.startswith('release:'):
        from smir.replay import generic_replay
        import checks.c01 as c1_
        return generic_replay(c1_)(v, run_scenario)
    parts0 = key0.split(':')
    if len(parts0) > 1 and parts0[1] in ('books', 'full', 'bank', 'registered', 'nonzero', 'denom', 'holding', 'exact', 'nodelegate', 'noundelegate', 'total'):
        from checks.c02 import replay_any as r2
        return r2(v, run_scenario)
    m = v['model']
    key = v.get('key') or ':'
    if key == 'zero_pool':
        op = OPS4[int(v['model'].get('__op', 0))]
    else:
        op = key.split(':')[0]
    if op in ('update_global_index', 'redelegate_proxy') and 'scenario_t' in v:
        from smir.replay import generic_replay
        import sys
        return generic_replay(sys.modules[__name__])(v, run_scenario)
    if op not in OPS4:
        return {'status': 'unavailable', 'detail': 'no scenario builder for ' + op}
    scn = hub_scenario(m, op)
    out = run_scenario(scn)
    if 'error' in out:
        return {'status': 'unavailable', 'detail': out['error']}
    e = real_effects(out)
    bad = []
    if e['ok']:
        from decimal import Decimal as D
        syn = out['synced_state']
        post = out['storage']['state']
        batch = out['storage']['current_batch']
        for tok, key, sup in (('b', 'bsei', 'S_bsei'), ('s', 'stsei', 'S_stsei')):
            pre = int(D(syn[key + '_exchange_rate']) * 10 ** 18)
            B2 = int(post['total_bond_%s_amount' % key])
            S2 = mget(m, sup) + e['mint_' + tok] - e['burn_' + tok]
            Q2 = int(batch['requested_bsei_with_fee' if tok == 'b' else 'requested_stsei'])
            claims = S2 + Q2
            pool_sync = int(syn['total_bond_%s_amount' % key])
            claims_pre = mget(m, sup) + mget(m, 'Q_bsei' if tok == 'b' else 'Q_stsei')
            corner = pool_sync == 0 and claims_pre > 0
            if (v.get('key') == 'zero_pool') != corner:
                continue
            if claims > 0:
                r2 = E if B2 == 0 else B2 * E // claims
                if r2 < pre:
                    bad.append('%s rate fell from %d to %d (pool %d, claims %d)' % (key, pre, r2, B2, claims))
        if op == 'bond_rewards' and (e['mint_b'] or e['mint_s']):
            bad.append('bond_rewards minted tokens')
    return {'status': 'reproduced' if bad else 'mismatch', 'scenario': scn, 'output': out, 'oracle': bad}


def ORACLE(v, scn, out):
    """frame obligations: pools, pending requests and token supplies untouched"""
    from checks.c01 import decode_hub
    res = out.get('result', {})
    if 'ok' not in res:
        return []
    pre, post = decode_hub(scn['storage']), decode_hub(out.get('storage', []))
    what = (v.get('key') or ':').split(':')[1]
    s0, s1 = pre['items'][b'\x00\x05state'], post['items'][b'\x00\x05state']
    b0, b1 = pre['items'][b'\x00\x0dcurrent_batch'], post['items'][b'\x00\x0dcurrent_batch']
    bad = []
    if what == 'pools' and (s0['total_bond_bsei_amount'], s0['total_bond_stsei_amount']) != (s1['total_bond_bsei_amount'], s1['total_bond_stsei_amount']):
        bad.append('pools changed')
    if what == 'requests' and (b0['requested_bsei_with_fee'], b0['requested_stsei']) != (b1['requested_bsei_with_fee'], b1['requested_stsei']):
        bad.append('pending requests changed')
    if what == 'supply':
        for sm in res['ok']['messages']:
            m_ = sm['msg']
            if 'wasm' in m_ and m_['wasm']['execute']['contract_addr'] in ('bsei_token', 'stsei_token'):
                bad.append('token message %r' % m_['wasm']['execute']['msg'])
    return bad if what in ('pools', 'requests', 'supply') else None


REPLAY = {'*': replay_any}
