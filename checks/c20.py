# C20  Stored parameters stay within their valid ranges under any update sequence
# Induction: base = instantiate with an arbitrary message, step = every update message with every optional
# field independently Some/None (symbolic tags) from an arbitrary state satisfying the range invariant.
import z3
from smir.values import *   # noqa
from smir.env import Entry
from checks.generic import *   # noqa
from checks.hubmodel import HubWorld, HUB, hub_querier_template

CRATES = ['basset_sei_hub', 'basset_sei_rewards_dispatcher', 'basset_sei_reward', 'basset_sei_validators_registry']
BOUNDS = {'quick': {'legacy wait-list entries': '0..1', 'swap_denoms list length': 1}, 'thorough': {'legacy wait-list entries': '0..1'}}
ASSUMPTIONS = ['A-ADDR (address validation / canonicalisation is the identity on address ids)',
               'a rejected update changes nothing: CosmWasm discards all writes of a failed execution (execution model, DESIGN 3.2)']
OUTSIDE = ['string contents of denominations / addresses (compared as opaque ids)']


def S_(W):
    return W.I.summ


def field(W, v, ty, name, crate=None):
    return W.mk.field(v, ty, name, crate or W.crate)


def num(x):
    while isinstance(x, Agg) and len(x.fields) == 1:
        x = x.fields[0]
    return x


def opt_none(o):
    """condition 'this Option-typed message field was omitted'"""
    if isinstance(o, SymEnum):
        return o.tag == 0
    return o.variant == 0


# ---------------------------------------------------------------------- hub
def ob_hub_instantiate(ctx):
    W = World(ctx, 'hub')
    W.install()
    msg = W.fresh('basset::hub::InstantiateMsg', 'im')
    sender = W.sv('sender')
    raw_scenario(W, 'instantiate', msg, sender)
    nok = 0
    for st, res in W.instantiate(msg, sender):
        if not is_ok(res):
            continue
        nok += 1
        p = W.get_item(st, b'\x00\x0bparameteres')
        fee = num(field(W, p, 'basset::hub::Parameters', 'peg_recovery_fee'))
        thr = num(field(W, p, 'basset::hub::Parameters', 'er_threshold'))
        ctx.require_all(st, [(fee <= E, 'stored peg fee <= 1 after instantiate', 'hub_instantiate:fee'),
                             (thr <= E, 'stored threshold <= 1 after instantiate', 'hub_instantiate:threshold')], W.mv)
        ctx.witness('hub instantiate with threshold above 1 requested', st, [num(field(W, msg, 'basset::hub::InstantiateMsg', 'er_threshold')) > E])
    ctx.need_witness('Ok path', nok > 0)
    ctx.expect_witness('clamping region', 'threshold above 1')


def ob_hub_update_params(ctx):
    W = HubWorld(ctx, n_validators=1, n_delegations=1)
    legacy_present = z3.Bool('legacy_entry_present')
    W.mv['legacy_entry_present'] = legacy_present
    legacy = Entry(('B', b'wait'), (('s', W.I.fresh('legacy_addr')), ('n', W.iv('legacy_batch', 0, 2 ** 32))), U128(W.iv('legacy_amt', 0, CAP)), legacy_present)
    paused_pre = W.I.fresh('paused_pre', 'bool')
    W.mv['paused_pre'] = paused_pre
    pre = W.params_value(paused=SymEnum(W.iv('paused_tag', 0, 1), (NONE, some(paused_pre))))
    W.install(params=pre, extra_entries=[legacy])
    I = W.I
    msg = sym_msg(W, 'basset::hub::ExecuteMsg', 'UpdateParams', HUB)
    mf = lambda n: W.mk.vfield(msg, 'basset::hub::ExecuteMsg', n, HUB)   # noqa
    raw_scenario(W, 'execute', msg, W.owner, querier=hub_querier_template(W))
    nok = 0
    for st, res in W.execute(msg, W.owner):
        if not is_ok(res):
            continue
        nok += 1
        p = W.item(st, b'\x00\x0bparameteres')
        g = lambda n: W.mk.field(p, 'basset::hub::Parameters', n, HUB)   # noqa
        o = lambda n: W.mk.field(pre, 'basset::hub::Parameters', n, HUB)   # noqa
        S = I.summ
        cl = [(num(g('peg_recovery_fee')) <= E, 'stored peg fee <= 1', 'hub_update_params:fee'),
              (num(g('er_threshold')) <= E, 'stored threshold <= 1', 'hub_update_params:threshold'),
              (S.struct_eq(st, g('underlying_coin_denom'), o('underlying_coin_denom')), 'underlying coin denomination never changes', 'hub_update_params:denom')]
        for fname in ('epoch_period', 'unbonding_period', 'peg_recovery_fee', 'er_threshold', 'reward_denom'):
            cl.append((z3.Implies(opt_none(mf(fname)), S.struct_eq(st, g(fname), o(fname))),
                       'omitted field %s keeps its stored value' % fname, 'hub_update_params:omit_' + fname))
            mfv = mf(fname)
            if isinstance(mfv, SymEnum) and fname != 'er_threshold':
                cl.append((z3.Implies(mfv.tag == 1, S.struct_eq(st, g(fname), mfv.alts[1].fields[0])),
                           'supplied field %s is stored' % fname, 'hub_update_params:set_' + fname))
        # pause flag: stored exactly as given (cleared when omitted)
        cl.append((S.struct_eq(st, g('paused'), mf('paused')), 'pause flag stored as given (cleared when omitted)', 'hub_update_params:paused'))
        ctx.require_all(st, cl, W.mv)
        ctx.witness('update_params with all fields omitted', st, [opt_none(mf(f)) for f in ('epoch_period', 'unbonding_period', 'peg_recovery_fee', 'er_threshold', 'reward_denom')], W.mv, expect='ok')
        ctx.witness('update_params with threshold above 1 supplied', st, [mf('er_threshold').tag == 1, num(mf('er_threshold').alts[1].fields[0]) > E])
    ctx.need_witness('Ok path', nok > 0)
    ctx.expect_witness('all-omitted region', 'all fields omitted')
    ctx.expect_witness('clamping region', 'threshold above 1')


def ob_hub_update_config(ctx):
    W = HubWorld(ctx, n_validators=1, n_delegations=1)
    I = W.I
    S = I.summ
    # token addresses may or may not be registered yet
    cfg_pre = W.config_value(
        bsei_token_contract=SymEnum(W.iv('bsei_set', 0, 1), (NONE, some(W.mk.caddr(W.bsei_token)))),
        stsei_token_contract=SymEnum(W.iv('stsei_set', 0, 1), (NONE, some(W.mk.caddr(W.stsei_token)))))
    W.install(config=cfg_pre)
    msg = sym_msg(W, 'basset::hub::ExecuteMsg', 'UpdateConfig', HUB)
    mf = lambda n: W.mk.vfield(msg, 'basset::hub::ExecuteMsg', n, HUB)   # noqa
    names = {'rewards_dispatcher_contract': 'reward_dispatcher_contract', 'validators_registry_contract': 'validators_registry_contract',
             'bsei_token_contract': 'bsei_token_contract', 'stsei_token_contract': 'stsei_token_contract',
             'airdrop_registry_contract': 'airdrop_registry_contract', 'rewards_contract': 'rewards_contract',
             'update_reward_index_addr': 'update_reward_index_addr'}
    raw_scenario(W, 'execute', msg, W.owner, querier=hub_querier_template(W))
    nok = 0
    for st, res in W.execute(msg, W.owner):
        if not is_ok(res):
            continue
        nok += 1
        c = W.item(st, b'\x00\x06config')
        g = lambda n: W.mk.field(c, 'basset::hub::Config', n, HUB)   # noqa
        o = lambda n: W.mk.field(cfg_pre, 'basset::hub::Config', n, HUB)   # noqa
        cl = [(S.struct_eq(st, g('creator'), o('creator')), 'owner unchanged by UpdateConfig', 'hub_update_config:owner')]
        for mname, cname in names.items():
            cl.append((z3.Implies(opt_none(mf(mname)), S.struct_eq(st, g(cname), o(cname))),
                       'omitted field %s keeps its stored value' % mname, 'hub_update_config:omit_' + mname))
        cl.append((z3.Implies(W.mv['bsei_set'] == 1, S.struct_eq(st, g('bsei_token_contract'), o('bsei_token_contract'))),
                   'bSei token address cannot be changed once set', 'hub_update_config:bsei_fixed'))
        cl.append((z3.Implies(W.mv['stsei_set'] == 1, S.struct_eq(st, g('stsei_token_contract'), o('stsei_token_contract'))),
                   'stSei token address cannot be changed once set', 'hub_update_config:stsei_fixed'))
        ctx.require_all(st, cl, W.mv)
        ctx.witness('update_config setting the bSei token for the first time', st, [W.mv['bsei_set'] == 0, mf('bsei_token_contract').tag == 1], W.mv, expect='ok')
    ctx.need_witness('Ok path', nok > 0)
    ctx.expect_witness('first-time token registration', 'first time')


# ---------------------------------------------------------------------- dispatcher
def disp_world(ctx):
    W = World(ctx, 'dispatcher')
    W.owner = W.sv('owner')
    cfg = W.fresh('state::Config', 'cfg')
    cfg = cfg.with_field(0, W.mk.caddr(W.owner))
    rate = num(W.mk.field(cfg, 'state::Config', 'krp_keeper_rate', W.crate))
    W.st.add(rate <= E)          # range invariant (pre)
    W.cfg = cfg
    W.item('config', cfg)
    W.item('newowneraddr', Agg('NewOwnerAddr', (W.mk.caddr(W.sv('pending_owner')),)))
    W.install()
    return W


def ob_dispatcher_instantiate(ctx):
    W = World(ctx, 'dispatcher')
    W.install()
    msg = W.fresh('msg::InstantiateMsg', 'im')
    snd = W.sv('sender')
    raw_scenario(W, 'instantiate', msg, snd)
    nok = 0
    for st, res in W.instantiate(msg, snd):
        if not is_ok(res):
            continue
        nok += 1
        c = W.get_item(st, 'config')
        ctx.require(st, num(W.mk.field(c, 'state::Config', 'krp_keeper_rate', W.crate)) <= E, 'stored keeper rate <= 1 after instantiate', 'dispatcher_instantiate:rate', W.mv)
    ctx.need_witness('Ok path', nok > 0)


def disp_update(variant, changed):
    def ob(ctx):
        W = disp_world(ctx)
        S = W.I.summ
        msg = sym_msg(W, 'msg::ExecuteMsg', variant)
        raw_scenario(W, 'execute', msg, W.owner)
        nok = 0
        fields = ['owner', 'hub_contract', 'bsei_reward_contract', 'stsei_reward_denom', 'bsei_reward_denom', 'krp_keeper_address',
                  'krp_keeper_rate', 'swap_contract', 'swap_denoms', 'oracle_contract']
        for st, res in W.execute(msg, W.owner):
            if not is_ok(res):
                continue
            nok += 1
            c = W.get_item(st, 'config')
            g = lambda n: W.mk.field(c, 'state::Config', n, W.crate)   # noqa
            o = lambda n: W.mk.field(W.cfg, 'state::Config', n, W.crate)   # noqa
            cl = [(num(g('krp_keeper_rate')) <= E, 'stored keeper rate <= 1', 'dispatcher_%s:rate' % variant),
                  (S.struct_eq(st, g('stsei_reward_denom'), o('stsei_reward_denom')), 'stSei reward denomination never changes', 'dispatcher_%s:denom' % variant)]
            for f in fields:
                if f in changed:
                    mfv = W.mk.vfield(msg, 'msg::ExecuteMsg', changed[f], W.crate)
                    if isinstance(mfv, SymEnum):
                        cl.append((z3.Implies(opt_none(mfv), S.struct_eq(st, g(f), o(f))), 'omitted field %s keeps its stored value' % f,
                                   'dispatcher_%s:omit_%s' % (variant, f)))
                        if f in ('hub_contract', 'bsei_reward_contract'):
                            # the principal the owner designates is the one stored at the end of the call, whatever else the
                            # same message carries
                            cl.append((z3.Implies(mfv.tag == 1, S.struct_eq(st, g(f), W.mk.caddr(mfv.alts[1].fields[0]))),
                                       'supplied address %s is the one stored' % f, 'dispatcher_%s:setaddr_%s' % (variant, f)))
                else:
                    cl.append((S.struct_eq(st, g(f), o(f)), 'field %s untouched' % f, 'dispatcher_%s:frame_%s' % (variant, f)))
            ctx.require_all(st, cl, W.mv)
        ctx.need_witness('Ok path of ' + variant, nok > 0)
    return ob


# ---------------------------------------------------------------------- reward / registry
def simple_update(contract, cfg_ty, cfg_key, msg_ty, variant, changed, owner_field='owner', extra_items=None, hub_params=False):
    def ob(ctx):
        W = World(ctx, contract)
        W.owner = W.sv('owner')
        cfg = W.fresh(cfg_ty, 'cfg')
        td = W.I.types.lookup(cfg_ty, W.crate)
        cfg = cfg.with_field(td.field_index(owner_field), W.mk.caddr(W.owner))
        W.item(cfg_key, cfg)
        for k, v in (extra_items or {}).items():
            W.item(k, v(W))
        W.install()
        S = W.I.summ
        msg = sym_msg(W, msg_ty, variant)
        qt = None
        if hub_params:
            # environment of code that consults the hub it is pointed at: the hub answers a Parameters query with arbitrary
            # parameters (the current tree never asks)
            hp = W.fresh('basset::hub::Parameters', 'hub_answer', 'basset')
            hubf = W.mk.vfield(msg, msg_ty, 'hub_contract', W.crate)
            hub_name = hubf.alts[1].fields[0] if isinstance(hubf, SymEnum) else W.sv('some_hub')

            def q_smart(st, addr, qmsg, tty, crate):
                if isinstance(qmsg, Agg) and qmsg.vname == 'Parameters':
                    yield st, ok(hp)
                    return
                raise Gap('smart query %r not modelled' % (qmsg,))
            W.q_smart = q_smart

            def qt(T):
                return {'smart': [{'contract': T.string(hub_name), 'key': 'parameters', 'response': T.value(hp, 'basset')}]}
        raw_scenario(W, 'execute', msg, W.owner, querier=qt)
        nok = 0
        for st, res in W.execute(msg, W.owner):
            if not is_ok(res):
                continue
            nok += 1
            c = W.get_item(st, cfg_key)
            cl = []
            for fname, fty in td.fields:
                g = c.fields[td.field_index(fname)]
                o = cfg.fields[td.field_index(fname)]
                if fname in changed:
                    mfv = W.mk.vfield(msg, msg_ty, changed[fname], W.crate)
                    if isinstance(mfv, SymEnum):
                        cl.append((z3.Implies(opt_none(mfv), S.struct_eq(st, g, o)), 'omitted field %s keeps its stored value' % fname,
                                   '%s_%s:omit_%s' % (contract, variant, fname)))
                else:
                    cl.append((S.struct_eq(st, g, o), 'field %s untouched' % fname, '%s_%s:frame_%s' % (contract, variant, fname)))
            ctx.require_all(st, cl, W.mv)
        ctx.need_witness('Ok path of %s %s' % (contract, variant), nok > 0)
    return ob


OBLIGATIONS = [
    ('hub_instantiate', ob_hub_instantiate),
    ('hub_update_params', ob_hub_update_params),
    ('hub_update_config', ob_hub_update_config),
    ('dispatcher_instantiate', ob_dispatcher_instantiate),
    ('dispatcher_update_config', disp_update('UpdateConfig', {'hub_contract': 'hub_contract', 'bsei_reward_contract': 'bsei_reward_contract',
                                                              'stsei_reward_denom': 'stsei_reward_denom', 'bsei_reward_denom': 'bsei_reward_denom',
                                                              'krp_keeper_address': 'krp_keeper_address', 'krp_keeper_rate': 'krp_keeper_rate'})),
    ('dispatcher_update_swap_contract', disp_update('UpdateSwapContract', {'swap_contract': 'swap_contract'})),
    ('dispatcher_update_swap_denom', disp_update('UpdateSwapDenom', {'swap_denoms': 'swap_denom'})),
    ('dispatcher_update_oracle_contract', disp_update('UpdateOracleContract', {'oracle_contract': 'oracle_contract'})),
    ('reward_update_config', simple_update('reward', 'state::Config', b'\x00\x06config', 'basset::reward::ExecuteMsg', 'UpdateConfig',
                                           {'hub_contract': 'hub_contract', 'reward_denom': 'reward_denom', 'swap_contract': 'swap_contract'},
                                           hub_params=True)),
    ('reward_update_swap_denom', simple_update('reward', 'state::Config', b'\x00\x06config', 'basset::reward::ExecuteMsg', 'UpdateSwapDenom',
                                               {'swap_denoms': 'swap_denom'})),
    ('registry_update_config', simple_update('registry', 'registry::Config', 'config', 'msg::ExecuteMsg', 'UpdateConfig', {'hub_contract': 'hub_contract'})),
]


# ---------------------------------------------------------------------- replay oracle (exact, on the real run)
import base64 as _b64
import json as _json
from decimal import Decimal as _D

CFGKEY = {'hub_update_params': b'\x00\x0bparameteres', 'hub_instantiate': b'\x00\x0bparameteres', 'hub_update_config': b'\x00\x06config',
          'dispatcher': b'config', 'reward': b'\x00\x06config', 'registry': b'config'}
HUB_CFG_NAMES = {'rewards_dispatcher_contract': 'reward_dispatcher_contract'}


def _decode(pairs):
    out = {}
    for k, v in pairs:
        try:
            out[_b64.b64decode(k)] = _json.loads(_b64.b64decode(v))
        except Exception:   # noqa
            pass
    return out


def ORACLE(v, scn, out):
    key = v.get('key') or ''
    ob, what = key.split(':', 1)
    res = out.get('result', {})
    if 'ok' not in res:
        return []
    pre = _decode(scn.get('storage', []))
    post = _decode(out.get('storage', []))
    ck = CFGKEY.get(ob) or CFGKEY.get(ob.split('_')[0])
    a, b = pre.get(ck, {}), post.get(ck, {})
    msg = scn.get('msg', {})
    body = list(msg.values())[0] if (isinstance(msg, dict) and len(msg) == 1 and isinstance(list(msg.values())[0], dict)) else msg
    bad = []
    if what in ('fee', 'threshold', 'rate'):
        f = {'fee': 'peg_recovery_fee', 'threshold': 'er_threshold', 'rate': 'krp_keeper_rate'}[what]
        if _D(b[f]) > 1:
            bad.append('stored %s = %s > 1' % (f, b[f]))
    elif what == 'denom':
        f = 'underlying_coin_denom' if ob.startswith('hub') else 'stsei_reward_denom'
        if a.get(f) != b.get(f):
            bad.append('%s changed from %r to %r' % (f, a.get(f), b.get(f)))
    elif what.startswith('omit_'):
        mname = what[5:]
        cname = HUB_CFG_NAMES.get(mname, mname) if ob == 'hub_update_config' else mname
        mm = {'swap_denoms': 'swap_denom'}.get(mname, mname)
        if body.get(mm) is None and a.get(cname) != b.get(cname):
            bad.append('omitted %s changed from %r to %r' % (mname, a.get(cname), b.get(cname)))
    elif what.startswith('frame_'):
        f = what[6:]
        if a.get(f) != b.get(f):
            bad.append('field %s changed from %r to %r' % (f, a.get(f), b.get(f)))
    elif what.startswith('setaddr_'):
        f = what[8:]
        if body.get(f) is not None:
            from smir.replay import run_scenario
            can = run_scenario({'kind': 'canonicalize', 'addresses': [body[f]]}).get('canonical', [None])[0]
            if not isinstance(can, str):
                return None
            if b.get(f) != can:
                bad.append('supplied %s=%r is not the stored one (stored %r, canonical form of the supplied %r)' % (f, body[f], b.get(f), can))
    elif what.startswith('set_'):
        f = what[4:]
        if body.get(f) is not None and _D(str(b.get(f))) != _D(str(body.get(f))) if f != 'reward_denom' else (body.get(f) is not None and b.get(f) != body.get(f)):
            bad.append('supplied %s=%r not stored (%r)' % (f, body.get(f), b.get(f)))
    elif what == 'paused':
        if b.get('paused') != body.get('paused'):
            bad.append('paused stored %r, given %r' % (b.get('paused'), body.get('paused')))
    elif what in ('bsei_fixed', 'stsei_fixed'):
        f = what.split('_')[0] + '_token_contract'
        if a.get(f) is not None and a.get(f) != b.get(f):
            bad.append('%s changed after being set' % f)
    elif what == 'owner':
        if a.get('creator') != b.get('creator'):
            bad.append('owner changed')
    else:
        return None
    return bad
