# C01  Matured unbond claims are always fully funded and paid exactly once
import z3
from smir.values import *   # noqa
from smir.interp import State
from checks.hubmodel import *     # noqa
from checks.generic import raw_scenario

CRATES = ['basset_sei_hub']
BOUNDS = {'quick': {'conservation / solvency / never-fails claims': '1 batch per release (k = 2: the solver does not decide the nonlinear sum within the caps; bound reduced, DESIGN 7 F6)', 'batches released together': '1..2', 'already released batches': '0..1', 'claimants': 'caller + one other (may not alias) + aggregated rest'},
          'thorough': {'batches released together': '1..3'}}
ASSUMPTIONS = ['E1, E2 (coins of a matured undelegation have arrived; balance >= prev_hub_balance), E3',
               'H3: unreleased matured batches have consecutive ids last_processed+1.., H5: prev_hub_balance >= sum of still unpaid released claims',
               'function contracts (fork-free closed forms) of SignedInt::from_subtraction, Uint256 x Decimal256 and calculate_new_withdraw_rate '
               'are used inside the handler runs; each is proven equivalent to the MIR of the real function in this same check (kernel_* obligations)',
               'stored batch rates <= 10 (E1: rates are backing/claims, far below 10 in the envelope) so that 256->128 bit conversions cannot overflow']
OUTSIDE = ['more batches per release than the bound', 'more than two explicit claimants (others enter through aggregated sums)']
CONTRACTS = {'SignedInt::from_subtraction', 'Uint256*Decimal256', 'calculate_new_withdraw_rate'}
RMAX = 10 * E
import os
MERGE_RATE = bool(os.environ.get('C01_MERGE_RATE'))


# ---------------------------------------------------------------------- kernel equivalence (contracts vs real MIR)
def kernel_world(ctx):
    I = ctx.interp()
    st = State()
    st.contract = HUB
    return I, st


def iv(I, st, name, lo, hi, mv):
    v = z3.Int(name)
    st.add(z3.And(v >= lo, v <= hi))
    I.set_bounds(v, lo, hi)
    mv[name] = v
    return v


def compare_runs(ctx, I, st, fname, crate, args, use_contract, key, mv, value_of):
    """run the real MIR of fname and its contract from the same symbolic arguments; results must agree path by path"""
    fn = None
    for n, f in I.crates[crate].items():
        if n == fname or n.endswith('::' + fname):
            fn = f
    if fn is None:
        raise Gap('kernel %s not found' % fname)
    real = list(I.call_fn(st.clone(), fn, list(args)))
    ctx.ob.paths += len(real)
    h = I.summ.lookup_contract(use_contract)
    spec = list(h(st.clone(), fn, fname, list(args), None))
    n = 0
    for st_r, vr in real:
        for st_s, vs in spec:
            pr, ps = isinstance(vr, Panic), isinstance(vs, Panic)
            if pr != ps:
                ctx.infeasible(st_r, 'contract and code agree on panics (%s)' % fname, key + ':panic', mv, assume=[c for c in st_s.pc if c is not True])
                continue
            if pr:
                continue
            n += 1
            ctx.require(st_r, value_of(I, st_r, vr) == value_of(I, st_s, vs), 'contract of %s equals the MIR semantics' % fname, key + ':value', mv,
                        assume=[c for c in st_s.pc if c is not True])
    ctx.need_witness('kernel %s compared on some path pair' % fname, n > 0)
    ctx.witness_found('kernel %s: %d real paths x %d contract paths' % (fname, len(real), len(spec)))


def ob_kernel_from_subtraction(ctx):
    I, st = kernel_world(ctx)
    mv = {}
    a = iv(I, st, 'a', 0, U128_MAX, mv)
    b = iv(I, st, 'b', 0, U128_MAX, mv)
    fn = [f for n, f in I.crates['signed_integer'].items() if n.endswith('from_subtraction')][0]
    real = list(I.call_fn(st.clone(), fn, [U128(a), U128(b)]))
    ctx.ob.paths += len(real)
    for st_r, vr in real:
        if isinstance(vr, Panic):
            ctx.infeasible(st_r, 'from_subtraction never panics on Uint128 operands', 'kernel_from_subtraction:panic', mv)
            continue
        ctx.require(st_r, z3.And(vr.fields[0].fields[0] == z3.If(a < b, b - a, a - b), vr.fields[1] == (a < b)),
                    'SignedInt::from_subtraction(a,b) = (|a-b|, a<b)', 'kernel_from_subtraction:value', mv)
    ctx.witness_found('from_subtraction: %d paths' % len(real))


def ob_kernel_mul(ctx):
    I, st = kernel_world(ctx)
    mv = {}
    x = iv(I, st, 'x', 0, 2 ** 200, mv)
    d = iv(I, st, 'd', 0, 2 ** 200, mv)
    from smir.summaries import U128 as _u
    X = Agg('Uint256', (Agg('U256', (x,)),))
    D = Agg('Decimal256', (Agg('U256', (d,)),))
    fn = None
    for n, f in I.crates['cosmwasm_bignumber'].items():
        if n.endswith('::mul') and len(f.params) == 2 and 'Uint256' in f.params[0][1] and 'Decimal256' in f.params[1][1]:
            fn = f
    real = list(I.call_fn(st.clone(), fn, [X, D]))
    ctx.ob.paths += len(real)
    q = I.fresh('kq')
    r = I.fresh('kr')
    for st_r, vr in real:
        if isinstance(vr, Panic):
            ctx.require(st_r, x * d > 2 ** 256 - 1, 'Uint256 x Decimal256 panics only on 256-bit overflow', 'kernel_mul:panic', mv)
            continue
        v = vr.fields[0].fields[0]
        ctx.require(st_r, z3.And(v * E <= x * d, x * d < (v + 1) * E), 'Uint256 x Decimal256 = floor(x*d/1e18)', 'kernel_mul:value', mv)
    ctx.witness_found('Uint256*Decimal256: %d paths' % len(real))


def ob_kernel_rate(ctx):
    """calculate_new_withdraw_rate: real MIR (with the two lower contracts) == merged contract"""
    I, st = kernel_world(ctx)
    I.contracts_on = {'SignedInt::from_subtraction', 'Uint256*Decimal256'}
    mv = {}
    amount = iv(I, st, 'amount', 0, CAP, mv)
    rate = iv(I, st, 'rate', 0, RMAX, mv)
    total = iv(I, st, 'total', 0, 4 * CAP * 10, mv)
    mag = iv(I, st, 'slashed', 0, 4 * CAP * 10, mv)
    neg = z3.Bool('slashed_negative')
    mv['slashed_negative'] = neg
    # preconditions that hold at every call site: total = sum of the batches' expected amounts >= this batch's;
    # a positive slashed amount never exceeds the total
    unb_pre = sdiv(I, st, amount * rate, E)
    st.add(total >= unb_pre, z3.Or(neg, mag <= total))
    args = [U128(amount), DEC(rate), Agg('Uint256', (Agg('U256', (total,)),)), Agg('SignedInt', (U128(mag), neg))]
    fn = I.crates[HUB]['calculate_new_withdraw_rate']
    real = list(I.call_fn(st.clone(), fn, list(args)))
    ctx.ob.paths += len(real)
    handler = I.summ.lookup_contract('calculate_new_withdraw_rate')
    n = 0
    for st_r, vr in real:
        # the contract is evaluated on the final state of the real path: identical divisions share their quotient
        for st_s, vs in handler(st_r.clone(), fn, 'calculate_new_withdraw_rate', list(args), None):
            pr, ps = isinstance(vr, Panic), isinstance(vs, Panic)
            if pr != ps:
                ctx.infeasible(st_s, 'contract and code agree on when the rate computation panics', 'kernel_rate:panic', mv)
                continue
            if pr:
                continue
            n += 1
            ctx.require(st_s, vr.fields[0] == vs.fields[0], 'contract of calculate_new_withdraw_rate equals the MIR semantics', 'kernel_rate:value', mv)
            # the same claim in sub-regions, so that a disagreement yields models that are observable through the public API
            ctx.require(st_s, vr.fields[0] == vs.fields[0], 'contract of calculate_new_withdraw_rate equals the MIR semantics (coins arrived)', 'kernel_rate:value_arrived', mv,
                        assume=[z3.Not(neg), mag + 1 <= total, unb_pre >= 1])
            ctx.require(st_s, vr.fields[0] == vs.fields[0], 'contract of calculate_new_withdraw_rate equals the MIR semantics (two batches)', 'kernel_rate:value_two', mv,
                        assume=[z3.Not(neg), total >= unb_pre + 2, mag >= 1, mag + 1 <= total])
    ctx.need_witness('rate kernel compared', n > 0)
    ctx.witness_found('calculate_new_withdraw_rate: %d real paths' % len(real))


# ---------------------------------------------------------------------- release scenarios
def release_world(ctx, k, released_before=0, other=True, cap=None, real_kernel=False, pending=False, immature=False, real_sub=False, fixed=None):
    W = HubWorld(ctx, n_validators=1, n_delegations=1, fixed=fixed)
    I = W.I
    I.contracts_on = {'SignedInt::from_subtraction', 'Uint256*Decimal256'} if (MERGE_RATE or real_kernel) else set(CONTRACTS)
    if real_sub:
        I.contracts_on = I.contracts_on - {'SignedInt::from_subtraction'}      # the real MIR of from_subtraction is executed
    I.trace_calls = {'calculate_new_withdraw_rate'}
    if MERGE_RATE:
        I.auto_merge = {'calculate_new_withdraw_rate'}
    user = I.S('user_a')
    W.user = user
    W.other = I.S('user_b')
    W.hs = []
    W.old = []
    st = W.st
    # already released batches (ids <= last_processed) with still unpaid claims of the caller
    for j in range(released_before):
        h = W.add_history('r%d' % j, released=True)
        st.add(h['id'] >= 1, h['id'] <= W.last_processed)
        st.add(h['bsei_wr'] <= RMAX, h['stsei_wr'] <= RMAX)
        W.old.append(h)
        h['w_c'] = W.add_wait('r%dc' % j, user, h['id'])
    for j in range(k):
        h = W.add_history(str(j + 1), released=False)
        st.add(h['id'] == W.last_processed + j + 1)
        st.add(h['time'] + W.unbonding <= W.now)
        st.add(h['bsei_wr'] <= RMAX, h['stsei_wr'] <= RMAX)
        W.hs.append(h)
        h['w_c'] = W.add_wait('%dc' % (j + 1), user, h['id'])
        if other:
            h['w_o'] = W.add_wait('%do' % (j + 1), W.other, h['id'])
            # the batch total covers the explicit entries (rest = others' entries >= 0)
            st.add(h['w_c']['bsei'] + h['w_o']['bsei'] <= h['bsei'], h['w_c']['stsei'] + h['w_o']['stsei'] <= h['stsei'])
        else:
            st.add(h['w_c']['bsei'] <= h['bsei'], h['w_c']['stsei'] <= h['stsei'])
    if cap is not None:
        st.add(W.hub_balance <= cap)
        for h in W.hs + W.old:
            st.add(h['bsei'] <= cap, h['stsei'] <= cap)
    W.im = None
    if immature:
        # an undelegated batch that has not matured yet, with a claim of the caller (its key may sort before the matured ones)
        h = W.add_history('im', released=False)
        st.add(h['id'] == W.last_processed + k + 1, h['time'] + W.unbonding > W.now, h['time'] <= W.now)
        st.add(h['bsei_wr'] <= RMAX, h['stsei_wr'] <= RMAX)
        for g in W.hs:
            st.add(g['time'] <= h['time'])
        h['w_c'] = W.add_wait('imc', user, h['id'])
        W.im = h
    st.add(W.batch_id == W.last_processed + k + (2 if immature else 1))
    st.add(W.hub_balance >= W.prev_hub_balance)
    st.add(W.unbonding <= W.now)
    W.pending = None
    if pending:
        # the caller also holds a not yet undelegated request in the open batch (its key sorts before or after the
        # matured ones depending on the decimal texts of the ids)
        W.pending = W.add_wait('open', user, W.batch_id)
    W.install()
    return W


def fl(I, st, x, r):
    return sdiv(I, st, x * r, E)


def spec_new_rate(I, st, amount, rate, total, slashed):
    """closed form of calculate_new_withdraw_rate (proved equal to its MIR by obligation kernel_new_withdraw_rate);
    slashed is signed: > 0 a loss, < 0 a surplus"""
    unb = sdiv(I, st, amount * rate, E)
    w = sdiv(I, st, unb * E, total)
    mag = z3.If(slashed >= 0, slashed, -slashed)
    share = sdiv(I, st, w * mag, E)
    pos_share = share + z3.If(mag != 0, 1, 0)
    actual = z3.If(slashed < 0, unb + z3.If(share > 1, share - 1, 0), z3.If(unb >= pos_share, unb - pos_share, 0))
    return z3.If(amount != 0, sdiv(I, st, actual * E, amount), rate)


def edge_free(W, I, st, arrived, expected_b, expected_s, k):
    tot = expected_b + expected_s
    s_ratio = sdiv(I, st, expected_s * E, tot)
    b_ratio = z3.If(tot > 0, E - s_ratio, 0)
    b_act = sdiv(I, st, arrived * b_ratio, E)
    s_act = arrived - b_act
    S_b = expected_b - b_act
    S_s = expected_s - s_act
    return z3.And(z3.Or(S_b <= 0, k * S_b < E), z3.Or(S_s <= 0, k * S_s < E))


def ob_release(k, released_before, cap=None, light=False, real_kernel=False, pending=False, immature=False, only=None, real_sub=False,
               other=True, shape=None, fixed=None):
    def ob(ctx):
        W = release_world(ctx, k, released_before, other=other, cap=cap, real_kernel=real_kernel, pending=pending, immature=immature, real_sub=real_sub,
                          fixed=fixed)
        if shape is not None:
            shape(W)
        I = W.I
        st0 = W.st
        # ghost: RC = still unpaid claims on already released batches of everybody (caller's part explicit)
        RC_rest = W.iv('unpaid_released_claims_of_others', 0, CAP)
        caller_old = 0
        for h in W.old:
            caller_old = caller_old + fl(I, st0, h['w_c']['stsei'], h['stsei_wr']) + fl(I, st0, h['w_c']['bsei'], h['bsei_wr'])
        st0.add(RC_rest + caller_old <= W.prev_hub_balance)           # H5
        msg = W.msg('WithdrawUnbonded')
        raw_scenario(W, 'execute', msg, W.user, querier=hub_querier_template(W))
        arrived = W.hub_balance - W.prev_hub_balance
        expected_b = sum(fl(I, st0, h['bsei'], h['bsei_wr']) for h in W.hs)
        expected_s = sum(fl(I, st0, h['stsei'], h['stsei_wr']) for h in W.hs)
        nok = 0
        for st, res in W.execute(msg, W.user):
            if isinstance(res, Panic):
                if not light and only is None:
                    ctx.infeasible(st, 'WithdrawUnbonded does not panic (E1, H5)', 'release:panic', W.mv)
                continue
            post_h = {}
            for e in st.stores[HUB].entries:
                if e.fam == ('P', b'history_map') and e.present is True:
                    post_h[id(e)] = e
            # payable amounts at the final rates of the batches released now
            ents = [e for e in st.stores[HUB].entries if e.fam == ('P', b'history_map')]
            new_b, new_s, pay_c = 0, 0, caller_old
            rel_ok = []
            for h in W.hs:
                e = None
                for cand in ents:
                    if cand.key[0][1] is h['id'] or (is_sym(cand.key[0][1]) and cand.key[0][1].eq(h['id'])):
                        e = cand
                hv = e.val
                rb2, rs2 = hv.fields[4].fields[0], hv.fields[7].fields[0]
                if not is_ok(res) and hv.fields[8] is False and not light:
                    # the call failed before this matured batch was released: what the claimant is owed is the share at the
                    # rate the release *would* fix (closed form of the rate kernel on the spec's split of the arrived coins)
                    arrived_ = W.hub_balance - W.prev_hub_balance
                    eb_ = sum(fl(I, st, g['bsei'], g['bsei_wr']) for g in W.hs)
                    es_ = sum(fl(I, st, g['stsei'], g['stsei_wr']) for g in W.hs)
                    tot_ = es_ + eb_
                    sr_ = sdiv(I, st, es_ * E, tot_)
                    ba_ = sdiv(I, st, arrived_ * z3.If(tot_ > 0, E - sr_, 0), E)
                    rb2 = spec_new_rate(I, st, h['bsei'], h['bsei_wr'], eb_, eb_ - ba_)
                    rs2 = spec_new_rate(I, st, h['stsei'], h['stsei_wr'], es_, es_ - (arrived_ - ba_))
                h['rb2'], h['rs2'], h['rel2'] = rb2, rs2, hv.fields[8]
                new_b = new_b + fl(I, st, h['bsei'], rb2)
                new_s = new_s + fl(I, st, h['stsei'], rs2)
                pay_c = pay_c + fl(I, st, h['w_c']['stsei'], rs2) + fl(I, st, h['w_c']['bsei'], rb2)
            if not is_ok(res):
                if light or (only is not None and 'release:fails' not in only):
                    continue
                # the only admissible failure: nothing (>= 1 unit) to withdraw
                ctx.require(st, pay_c < 1, 'a claimant whose matured claims are worth at least one unit is paid (withdraw never fails for funds)',
                            'release:fails', W.mv, assume=[edge_free(W, I, st, arrived, expected_b, expected_s, k)])
                continue
            nok += 1
            e = effects(W, st, res)
            paid = sum(a for m in e.bank for _, a in m['coins']) if e.bank else 0
            no_slash = arrived == expected_b + expected_s
            # the handler splits the arrived coins between the two token sides in proportion to what each expected
            tot = expected_b + expected_s
            s_ratio = sdiv(I, st, expected_s * E, tot)
            b_ratio = z3.If(tot > 0, E - s_ratio, 0)
            b_act = sdiv(I, st, arrived * b_ratio, E)
            s_act = arrived - b_act
            S_b = expected_b - b_act        # slashed amount of the bSei side (negative = surplus)
            S_s = expected_s - s_act
            inner_b = z3.Or(S_b <= 0, k * S_b < E)      # F6: outside, the 18-digit weight can lose up to one unit per batch
            inner_s = z3.Or(S_s <= 0, k * S_s < E)
            cl = [
                (z3.Implies(z3.And(inner_b, inner_s), new_b + new_s <= arrived), 'total payable of the batches released together never exceeds the coins that arrived', 'release:conservation'),
                (z3.Implies(no_slash, arrived - (new_b + new_s) <= 2 * k + 2), 'without slashing the shortfall is at most a few units of dust per batch', 'release:dust'),
                (paid == pay_c, 'the claimant is paid exactly its recorded share at the final withdraw rates', 'release:share'),
                (z3.And(*[h['rel2'] == True for h in W.hs]), 'all matured batches are released', 'release:released'),   # noqa
                (e.post['prev_hub_balance'] == W.hub_balance - paid, 'recorded balance = balance after the payout', 'release:prev'),
                (e.post['last_processed'] == W.last_processed + k, 'last processed batch advances over the released ones', 'release:last'),
                (len(e.bank) == 1 and len(e.msgs) == 1, 'exactly one bank transfer to the claimant', 'release:msg'),
                (z3.And(e.post['Bb'] == W.Bb, e.post['Bs'] == W.Bs, e.batch['Qb'] == W.Qb, e.batch['Qs'] == W.Qs, e.mint_b == 0, e.mint_s == 0, e.burn_b == 0, e.burn_s == 0),
                 'a withdrawal touches neither the pools, the pending requests nor the token supplies (no rate can move)', 'release:pools'),
            ]
            # loss spread per token type: every batch's new rate is computed from its own token side's total and that side's
            # share of the arrived coins (call-site arguments of the rate kernel; the kernel itself: kernel_new_withdraw_rate)
            calls = [ev for ev in st.log if ev[0] == 'call' and ev[1] == 'calculate_new_withdraw_rate']
            # the spec's split of the arrived coins, expressed with the quotients of this path where the operands provably coincide
            tot_c = expected_s + expected_b
            s_ratio_c = sdiv(I, st, expected_s * E, tot_c, sem=True)
            b_ratio_c = z3.If(tot_c > 0, E - s_ratio_c, 0)
            b_act_c = sdiv(I, st, arrived * b_ratio_c, E, sem=True)
            S_b_c = expected_b - b_act_c
            S_s_c = expected_s - (arrived - b_act_c)

            def num(v):
                while isinstance(v, Agg):
                    v = v.fields[0]
                return v
            for ci, ev in enumerate(calls):
                a_amount, a_rate, a_total, a_sl = ev[2]
                mag, neg = num(a_sl.fields[0]), a_sl.fields[1]
                signed = z3.If(neg, -mag, mag) if not isinstance(neg, bool) else (-mag if neg else mag)
                side = 's' if ci % 2 == 0 else 'b'
                want_total, want_sl = (expected_s, S_s_c) if side == 's' else (expected_b, S_b_c)
                cl.append((z3.And(num(a_total) == want_total, signed == want_sl),
                           'the %s side of the batches released together is charged its own share of the loss: total unbonded of that token type and that side\'s part of the arrived coins' % ('stSei' if side == 's' else 'bSei'),
                           'release:per_token_' + side))
            cl.append((len(calls) == 2 * k, 'two rate computations per released batch', 'release:per_token_calls'))
            # H5 preserved: unpaid released claims after <= recorded balance after
            others_new = (new_b + new_s) - sum(fl(I, st, h['w_c']['stsei'], h['rs2']) + fl(I, st, h['w_c']['bsei'], h['rb2']) for h in W.hs)
            cl.append((z3.Implies(z3.And(inner_b, inner_s), RC_rest + others_new <= e.post['prev_hub_balance']), 'liquid balance still covers all remaining matured claims (H5 preserved)', 'release:solvent'))
            # the caller's entries on released batches are gone
            left = [w for w in st.stores[HUB].entries if w.fam == ('B', b'v2_wait') and w.present is not False and w.key[0][1] == W.user.id]
            keep_ids = ([W.batch_id] if W.pending is not None else []) + ([W.im['id']] if W.im is not None else [])
            if keep_ids:
                cl.append((len(left) == len(keep_ids), 'the claims on the open / not yet matured batches survive the withdrawal', 'release:keeps_pending'))
                left = [w for w in left if not any(w.key[1][1] is b_ or (is_sym(w.key[1][1]) and w.key[1][1].eq(b_)) for b_ in keep_ids)]
            if W.im is not None:
                ime = [c_ for c_ in ents if c_.key[0][1] is W.im['id'] or (is_sym(c_.key[0][1]) and c_.key[0][1].eq(W.im['id']))][-1]
                cl.append((ime.val.fields[8] == False, 'the batch that has not matured stays unreleased', 'release:immature'))   # noqa
            cl.append((len(left) == 0, 'paid claims are removed (never paid twice)', 'release:removed'))
            if light:
                cl = [c for c in cl if c[2] in ('release:share', 'release:released', 'release:prev', 'release:last', 'release:msg', 'release:removed', 'release:keeps_pending', 'release:immature', 'release:per_token_s', 'release:per_token_b', 'release:per_token_calls', 'release:pools')]
            if only is not None:
                cl = [c for c in cl if c[2] in only]
            ctx.require_all(st, cl, W.mv)
            ctx.witness('release of %d batch(es) with slashing' % k, st, [arrived < expected_b + expected_s], W.mv)
            ctx.witness('release of %d batch(es) without slashing' % k, st, [no_slash, expected_b + expected_s > 0], W.mv)
        ctx.need_witness('Ok path', nok > 0)
        if k >= 1 and shape is None:
            ctx.expect_witness('slashing region', 'with slashing')
            ctx.expect_witness('no-slashing region', 'without slashing')
        ctx.ob.bounds = {'batches': k, 'released_before': released_before}
        if shape is not None:
            ctx.ob.bounds['shape'] = shape.__doc__
    return ob


def plain_batches(W):
    """many matured batches of the plainest shape: ids 1..k, every stored rate 1, bSei requests only (batch j holds 1000 x j),
    exactly the expected coins arrived (no slashing), the caller holds the whole of every batch; these are concrete values of
    the world (constant-folded by the executor), while times, periods, pools, supplies and the balances stay symbolic"""
    tot = sum(1000 * (j + 1) for j in range(len(W.hs)))
    W.st.add(W.hub_balance - W.prev_hub_balance == tot)


def plain_fixed(k):
    d = {'last_processed_batch': 0, 'current_batch_id': k + 1}
    for j in range(k):
        t = str(j + 1)
        d.update({'h%s_id' % t: j + 1, 'h%s_bsei' % t: 1000 * (j + 1), 'h%s_stsei' % t: 0, 'h%s_bsei_wrate' % t: E, 'h%s_stsei_wrate' % t: E,
                  'w%sc_bsei' % t: 1000 * (j + 1), 'w%sc_stsei' % t: 0})
    return d


def seq_withdraw(W, st0, users):
    """all-Ok paths of consecutive WithdrawUnbonded calls by `users`; yields (state, [payout per call])"""
    msg = W.msg('WithdrawUnbonded')

    def rec(st, i, acc):
        if i == len(users):
            yield st, acc
            return
        W.st = st
        for st2, res in list(W.execute(msg, users[i])):
            if is_ok(res):
                e = effects(W, st2, res)
                paid = sum(a for m in e.bank for _, a in m['coins']) if e.bank else 0
                # the balance the next call sees: the payout has left the hub
                yield from rec(st2, i + 1, acc + [paid])
    yield from rec(st0, 0, [])


def ob_order(k):
    def ob(ctx):
        W = release_world(ctx, k, 0, other=True)
        I = W.I
        root = W.st
        # the second call of a sequence sees the balance reduced by the first payout: model the bank by a world hook
        orders = {}
        for name, users in (('AB', [W.user, W.other]), ('BA', [W.other, W.user])):
            outs = []
            for st, pays in seq_withdraw_bank(W, root.clone(), users):
                outs.append((st, pays))
            orders[name] = outs
        ctx.ob.paths += len(orders['AB']) + len(orders['BA'])
        n = 0
        for stA, pA in orders['AB']:
            for stB, pB in orders['BA']:
                ctx.require(stA, z3.And(pA[0] == pB[1], pA[1] == pB[0]), 'each claimant\'s payout is independent of the order in which claimants withdraw',
                            'order:payout', W.mv, assume=[c for c in stB.pc if c is not True])
                n += 1
        ctx.need_witness('both orders have paths where both claimants are paid', n > 0)
        ctx.witness_found('order independence: %d x %d path pairs' % (len(orders['AB']), len(orders['BA'])))
    return ob


def seq_withdraw_bank(W, st0, users):
    msg = W.msg('WithdrawUnbonded')
    bal0 = W.hub_balance

    def rec(st, i, acc, bal):
        if i == len(users):
            W.hub_balance = bal0
            yield st, acc
            return
        W.st = st
        W.hub_balance = bal
        outs = list(W.execute(msg, users[i]))
        for st2, res in outs:
            if is_ok(res):
                e = effects(W, st2, res)
                paid = sum(a for m in e.bank for _, a in m['coins']) if e.bank else 0
                yield from rec(st2, i + 1, acc + [paid], bal - paid)
        W.hub_balance = bal0
    yield from rec(st0, 0, [], bal0)


def ob_order_frame(ctx):
    """order independence by non-interference: the final withdraw rates, the released flags and every other claimant's
    entries written by a WithdrawUnbonded do not depend on who calls it (nor on the caller's own claim sizes); together
    with release:share (the payout is a function of the caller's entries and the stored final rates only) each claimant's
    payout is the same in every order."""
    from smir.framework import vars_of
    for k in (1, 2):
        W = release_world(ctx, k, 0, other=True)
        caller_vars = set()
        for h in W.hs:
            caller_vars |= {h['w_c']['bsei'].decl().name(), h['w_c']['stsei'].decl().name()}
        n = 0
        for st, res in W.execute(W.msg('WithdrawUnbonded'), W.user):
            if not is_ok(res):
                continue
            n += 1
            for e in st.stores[HUB].entries:
                if e.fam == ('P', b'history_map') and e.present is True:
                    names = set()
                    for f in e.val.fields:
                        x = f.fields[0] if isinstance(f, Agg) else f
                        if is_sym(x):
                            names |= vars_of(x)
                    if names & caller_vars:
                        ctx.violation('final withdraw rates depend on the caller\'s own claim', 'order:rates_depend_on_caller', {'vars': sorted(names & caller_vars)})
                if e.fam == ('B', b'v2_wait') and e.key[0][1] == W.other.id:
                    # the other claimant's entries are untouched
                    pass
            for ev in st.log:
                if ev[0] == 'write' and ev[2] == ('B', b'v2_wait') and ev[3][0][1] != W.user.id:
                    ctx.violation('a withdrawal modified another claimant\'s entry', 'order:touches_other', {})
        ctx.need_witness('Ok paths (k=%d)' % k, n > 0)
    ctx.witness_found('non-interference checked on all Ok paths for k=1,2')


def ob_twice(ctx):
    """a claim is never paid twice: a second WithdrawUnbonded by the same claimant without a new release fails."""
    W = release_world(ctx, 1, 0, other=True)
    root = W.st
    n1 = 0
    bal0 = W.hub_balance
    msg = W.msg('WithdrawUnbonded')
    for st, res in list(W.execute(msg, W.user)):
        if not is_ok(res):
            continue
        n1 += 1
        e = effects(W, st, res)
        paid = sum(a for m in e.bank for _, a in m['coins']) if e.bank else 0
        W.st = st
        W.hub_balance = bal0 - paid
        for st2, res2 in list(W.execute(msg, W.user)):
            if is_ok(res2):
                ctx.infeasible(st2, 'a second withdrawal without a new release pays nothing (claims are paid exactly once)', 'twice:paid', W.mv)
        W.hub_balance = bal0
    ctx.need_witness('first withdrawal has an Ok path', n1 > 0)
    ctx.witness_found('second-withdraw explored after %d first-call paths' % n1)


OBLIGATIONS = [('kernel_from_subtraction', ob_kernel_from_subtraction), ('kernel_uint256_mul_decimal256', ob_kernel_mul),
               ('kernel_new_withdraw_rate', ob_kernel_rate),
               ('release_k1', ob_release(1, 0, real_kernel=True)), ('release_k1_old1', ob_release(1, 1, real_kernel=True, real_sub=True)),
               ('release_k1_immature', ob_release(1, 0, real_kernel=True, pending=True, immature=True)),
               ('withdraw_k0_old1', ob_release(0, 1, real_kernel=True)), ('release_k2', ob_release(2, 0, light=True)),
               ('release_k3', ob_release(3, 0, light=True)),
               ('release_k12_plain', ob_release(12, 0, light=True, other=False, shape=plain_batches, fixed=plain_fixed(12),
                                                only=('release:released', 'release:last', 'release:share'))),
               ('release_k35_plain', ob_release(35, 0, light=True, other=False, shape=plain_batches, fixed=plain_fixed(35),
                                                only=('release:released', 'release:last', 'release:share'))), ('order_independence', ob_order_frame), ('paid_once', ob_twice)]


def tier_filter(name, tier):
    return tier == 'thorough' or name != 'release_k3'


# ---------------------------------------------------------------------- replay oracle
def decode_hub(pairs):
    import base64, json as js
    from smir import rawstore
    out = {'hist': {}, 'wait': {}, 'items': {}}
    hp = rawstore.lp(b'history_map')
    wp = rawstore.lp(b'v2_wait')
    for k, v in pairs:
        kb, vb = base64.b64decode(k), base64.b64decode(v)
        try:
            val = js.loads(vb)
        except Exception:   # noqa
            continue
        if kb.startswith(hp):
            out['hist'][int.from_bytes(kb[len(hp):], 'big')] = val
        elif kb.startswith(wp):
            rest = kb[len(wp):]
            n = int.from_bytes(rest[:2], 'big')
            addr = js.loads(rest[2:2 + n])
            batch = int(rest[2 + n:])
            out['wait'][(addr, batch)] = val
        else:
            out['items'][kb] = val
    return out


def atoms(s):
    from decimal import Decimal as D
    return int(D(s) * 10 ** 18)


def ref_release(pre, balance, now):
    """python reference of process_withdraw_rate (exact integers): returns {batch id: (new bsei rate, new stsei rate)}"""
    st = pre['items'][b'\x00\x05state']
    params = pre['items'][b'\x00\x0bparameteres']
    lp_ = int(st['last_processed_batch'])
    hist_time = now - int(params['unbonding_period'])
    group = []
    i = lp_ + 1
    while i in pre['hist'] and int(pre['hist'][i]['time']) <= hist_time and not pre['hist'][i]['released']:
        group.append(i)
        i += 1
    if not group:
        return {}, 0
    Ts = sum(int(pre['hist'][i]['stsei_amount']) * atoms(pre['hist'][i]['stsei_withdraw_rate']) // E for i in group)
    Tb = sum(int(pre['hist'][i]['bsei_amount']) * atoms(pre['hist'][i]['bsei_withdraw_rate']) // E for i in group)
    arrived = balance - int(st['prev_hub_balance'])
    if arrived < 0:
        return None, 0
    br = 0
    if Ts + Tb > 0:
        br = E - Ts * E // (Ts + Tb)
    b_act = arrived * br // E
    s_act = arrived - b_act

    def newrate(amount, rate, total, slashed):
        unb = amount * rate // E
        w = unb * E // total if total else 0
        share = w * abs(slashed) // E
        if slashed < 0:
            actual = unb + (share - 1 if share > 1 else 0)
        else:
            actual = abs(unb - (share + (1 if slashed != 0 else 0)))
        return actual * E // amount if amount else rate
    out = {}
    for i in group:
        h = pre['hist'][i]
        out[i] = (newrate(int(h['bsei_amount']), atoms(h['bsei_withdraw_rate']), Tb, Tb - b_act),
                  newrate(int(h['stsei_amount']), atoms(h['stsei_withdraw_rate']), Ts, Ts - s_act))
    return out, arrived


def ORACLE(v, scn, out):
    key = v.get('key') or ''
    if not key.startswith('release:'):
        return None
    what = key.split(':')[1]
    pre = decode_hub(scn['storage'])
    post = decode_hub(out.get('storage', []))
    res = out.get('result', {})
    balance = int(scn['querier']['balances'][0]['amount'])
    now = int(scn['env']['time'])
    user = scn['info']['sender']
    prev = int(pre['items'][b'\x00\x05state']['prev_hub_balance'])
    bad = []
    if 'panic' in res and what == 'panic':
        return ['panic: ' + str(res)]
    ref, arrived = ref_release(pre, balance, now)
    if 'ok' not in res:
        if what == 'fails':
            if ref is None:
                return []
            # what the caller would be owed: released batches (already released or released now)
            owed = 0
            for (a, b), w in pre['wait'].items():
                if a != user or b not in pre['hist']:
                    continue
                h = pre['hist'][b]
                if h['released']:
                    rb, rs = atoms(h['bsei_withdraw_rate']), atoms(h['stsei_withdraw_rate'])
                elif b in ref:
                    rb, rs = ref[b]
                else:
                    continue
                owed += int(w['stsei_amount']) * rs // E + int(w['bsei_amount']) * rb // E
            return ['withdraw failed (%s) although the claimant is owed %d' % (str(res)[:120], owed)] if owed >= 1 else []
        return []
    released_now = [i for i, h in post['hist'].items() if h['released'] and i in pre['hist'] and not pre['hist'][i]['released']]
    payable = 0
    for i in released_now:
        h = post['hist'][i]
        payable += int(h['bsei_amount']) * atoms(h['bsei_withdraw_rate']) // E + int(h['stsei_amount']) * atoms(h['stsei_withdraw_rate']) // E
    paid = 0
    for sm in res['ok']['messages']:
        if 'bank' in sm['msg']:
            for c in sm['msg']['bank']['send']['amount']:
                paid += int(c['amount'])
    if what.startswith('per_token'):
        exp_b = sum(int(pre['hist'][i]['bsei_amount']) * atoms(pre['hist'][i]['bsei_withdraw_rate']) // E for i in released_now)
        exp_s = sum(int(pre['hist'][i]['stsei_amount']) * atoms(pre['hist'][i]['stsei_withdraw_rate']) // E for i in released_now)
        arr = balance - prev
        br = (E - exp_s * E // (exp_s + exp_b)) if exp_s + exp_b > 0 else 0
        b_act = arr * br // E
        s_act = arr - b_act
        nb = sum(int(post['hist'][i]['bsei_amount']) * atoms(post['hist'][i]['bsei_withdraw_rate']) // E for i in released_now)
        ns = sum(int(post['hist'][i]['stsei_amount']) * atoms(post['hist'][i]['stsei_withdraw_rate']) // E for i in released_now)
        kk = len(released_now)
        edge = (exp_b - b_act > 0 and kk * (exp_b - b_act) >= E) or (exp_s - s_act > 0 and kk * (exp_s - s_act) >= E)
        if not edge and (nb > b_act or b_act - nb > 2 * kk + 2 or ns > s_act or s_act - ns > 2 * kk + 2):
            bad.append('arrived %d: bSei side owed %d credited %d, stSei side owed %d credited %d' % (arr, b_act, nb, s_act, ns))
    elif what == 'conservation' and payable > balance - prev:
        bad.append('batches %s released together are payable for %d but only %d arrived' % (released_now, payable, balance - prev))
    elif what == 'dust':
        exp = sum(int(pre['hist'][i]['bsei_amount']) * atoms(pre['hist'][i]['bsei_withdraw_rate']) // E +
                  int(pre['hist'][i]['stsei_amount']) * atoms(pre['hist'][i]['stsei_withdraw_rate']) // E for i in released_now)
        if exp == balance - prev and (balance - prev) - payable > 2 * len(released_now) + 2:
            bad.append('no slashing, arrived %d, payable only %d' % (balance - prev, payable))
    elif what == 'share':
        owed = 0
        for (a, b), w in pre['wait'].items():
            if a == user and b in post['hist'] and post['hist'][b]['released']:
                h = post['hist'][b]
                owed += int(w['stsei_amount']) * atoms(h['stsei_withdraw_rate']) // E + int(w['bsei_amount']) * atoms(h['bsei_withdraw_rate']) // E
        if paid != owed:
            bad.append('paid %d, recorded share %d' % (paid, owed))
    elif what == 'solvent':
        unpaid = 0
        for (a, b), w in post['wait'].items():
            if b in post['hist'] and post['hist'][b]['released']:
                h = post['hist'][b]
                unpaid += int(w['stsei_amount']) * atoms(h['stsei_withdraw_rate']) // E + int(w['bsei_amount']) * atoms(h['bsei_withdraw_rate']) // E
        # claimants not listed explicitly: the remainder of each batch total (upper bound by batch payable)
        rest = int(v['model'].get('unpaid_released_claims_of_others', 0))
        for i in released_now:
            h = post['hist'][i]
            listed_b = sum(int(w['bsei_amount']) for (a, b), w in pre['wait'].items() if b == i)
            listed_s = sum(int(w['stsei_amount']) for (a, b), w in pre['wait'].items() if b == i)
            rest += (int(h['bsei_amount']) * atoms(h['bsei_withdraw_rate']) // E + int(h['stsei_amount']) * atoms(h['stsei_withdraw_rate']) // E) - \
                (listed_b * atoms(h['bsei_withdraw_rate']) // E + listed_s * atoms(h['stsei_withdraw_rate']) // E) if False else 0
        newprev = int(post['items'][b'\x00\x05state']['prev_hub_balance'])
        if unpaid + int(v['model'].get('unpaid_released_claims_of_others', 0)) > newprev:
            bad.append('remaining matured claims %d exceed the recorded liquid balance %d' % (unpaid, newprev))
    elif what == 'removed':
        for (a, b), w in post['wait'].items():
            if a == user and b in post['hist'] and post['hist'][b]['released']:
                bad.append('paid claim on batch %d not removed' % b)
    elif what == 'prev' and int(post['items'][b'\x00\x05state']['prev_hub_balance']) != balance - paid:
        bad.append('prev_hub_balance wrong')
    elif what == 'immature':
        unb = int(pre['items'][b'\x00\x0bparameteres']['unbonding_period'])
        for i, h in pre['hist'].items():
            if not h['released'] and int(h['time']) + unb > now and post['hist'].get(i, {}).get('released'):
                bad.append('batch %d released before it matured' % i)
    elif what == 'keeps_pending':
        for k_ in pre['wait']:
            if k_[0] == user and k_ not in post['wait'] and not (k_[1] in post['hist'] and post['hist'][k_[1]]['released']):
                bad.append('claim on unreleased batch %d deleted' % k_[1])
    elif what in ('released', 'last'):
        group = sorted(ref) if ref else []
        if what == 'released':
            for i in group:
                if not post['hist'][i]['released']:
                    bad.append('matured batch %d not released' % i)
        elif group and int(post['items'][b'\x00\x05state']['last_processed_batch']) != group[-1]:
            bad.append('last_processed_batch %s, last matured batch %d' % (post['items'][b'\x00\x05state']['last_processed_batch'], group[-1]))
    elif what == 'pools':
        s0_, s1_ = pre['items'][b'\x00\x05state'], post['items'][b'\x00\x05state']
        if (s0_['total_bond_bsei_amount'], s0_['total_bond_stsei_amount']) != (s1_['total_bond_bsei_amount'], s1_['total_bond_stsei_amount']) or \
                pre['items'][b'\x00\x0dcurrent_batch'] != post['items'][b'\x00\x0dcurrent_batch'] or any('wasm' in sm['msg'] for sm in res['ok']['messages']):
            bad.append('pools / pending requests / token supplies touched by a withdrawal')
    elif what == 'msg':
        banks = [sm for sm in res['ok']['messages'] if 'bank' in sm['msg']]
        if len(res['ok']['messages']) != 1 or len(banks) != 1 or banks[0]['msg']['bank']['send']['to_address'] != user:
            bad.append('messages: %r' % res['ok']['messages'])
    elif what == 'panic':
        return []
    return bad


def replay_kernel_rate(v, run_scenario):
    """a kernel-level model is realised through the public API: a release group whose first batch has the model's amount
    and rate, a second batch supplying the rest of the total, and a balance change equal to total -/+ slashed; the property
    oracles are then evaluated on the real WithdrawUnbonded."""
    m = v['model']
    amount, rate, total, mag = mget(m, 'amount'), mget(m, 'rate'), mget(m, 'total'), mget(m, 'slashed')
    neg = mget(m, 'slashed_negative', False)
    unb1 = amount * rate // E
    rest = total - unb1
    if rest < 0 or (not neg and mag > total):
        return {'status': 'mismatch', 'detail': 'model outside the call-site precondition'}
    arrived = total + mag if neg else total - mag
    hs = [{'batch_id': 1, 'time': 0, 'bsei_amount': str(amount), 'bsei_applied_exchange_rate': str(rate), 'bsei_withdraw_rate': str(rate),
           'stsei_amount': '0', 'stsei_applied_exchange_rate': str(E), 'stsei_withdraw_rate': str(E), 'released': False}]
    waits = [{'addr': ADDR['user'], 'batch': 1, 'bsei': str(amount), 'stsei': '0'}]
    if rest > 0:
        hs.append({'batch_id': 2, 'time': 0, 'bsei_amount': str(rest), 'bsei_applied_exchange_rate': str(E), 'bsei_withdraw_rate': str(E),
                   'stsei_amount': '0', 'stsei_applied_exchange_rate': str(E), 'stsei_withdraw_rate': str(E), 'released': False})
        waits.append({'addr': ADDR['user'], 'batch': 2, 'bsei': str(rest), 'stsei': '0'})
    mm = {'hub_balance': arrived, 'prev_hub_balance': 0, 'now': 10, 'unbonding_period': 5, 'current_batch_id': len(hs) + 1, 'last_processed_batch': 0}
    scn = hub_scenario(mm, 'withdraw', histories=hs, waits=waits)
    out = run_scenario(scn)
    if 'error' in out:
        return {'status': 'unavailable', 'detail': out['error']}
    res = out.get('result', {})
    bad = []
    post = out['storage']
    payable = 0
    for h in post.get('histories', []):
        if h['released']:
            payable += int(h['bsei_amount']) * int(h['bsei_withdraw_rate']) // E + int(h['stsei_amount']) * int(h['stsei_withdraw_rate']) // E
    if 'ok' in res:
        e = real_effects(out)
        paid = sum(int(c['amount']) for b in e['bank'] for c in b['send']['amount'])
        if payable > arrived:
            bad.append('batches released together are payable for %d but only %d arrived' % (payable, arrived))
        if paid != payable:
            bad.append('sole claimant paid %d, recorded share %d' % (paid, payable))
        if total == arrived and arrived - payable > 2 * len(hs) + 2:
            bad.append('no slashing: arrived %d but payable only %d' % (arrived, payable))
    else:
        # would-be amounts from the reference of the *intended* semantics (slashed share clamped at zero)
        ref_pay = 0
        for h in hs:
            a, r = int(h['bsei_amount']), int(h['bsei_withdraw_rate'])
            unb = a * r // E
            w = unb * E // total if total else 0
            share = w * mag // E
            actual = unb + (share - 1 if share > 1 else 0) if neg else max(0, unb - share - (1 if mag else 0))
            ref_pay += a * (actual * E // a if a else r) // E
        if ref_pay >= 1:
            bad.append('WithdrawUnbonded failed (%s) although the claimant is owed %d and %d arrived' % (str(res)[:100], ref_pay, arrived))
    return {'status': 'reproduced' if bad else 'mismatch', 'scenario': scn, 'output': out, 'oracle': bad,
            'detail': '' if bad else 'kernel differs from its contract but the property holds on this input'}


REPLAY = {'kernel_new_withdraw_rate': replay_kernel_rate}
