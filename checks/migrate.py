# The `migrate` entry point as one more step of every history (shared by the checks whose inductive arguments range over
# "every message a contract accepts"): executed symbolically from the property's own symbolic world, claim = frame.
from checks.generic import migrate_frame, migrate_oracle, CRATE


def make(contract):
    def ob(ctx):
        if contract == 'hub':
            from checks.hubmodel import HubWorld, hub_querier_template, HUB
            from smir.values import SymEnum, NONE, some
            W = HubWorld(ctx, n_validators=1, n_delegations=1)
            W.paused = SymEnum(W.iv('paused_tag', 0, 2), (NONE, some(False), some(True)))
            W.install()
            migrate_frame(ctx, W, HUB, 'basset::hub::MigrateMsg', HUB, querier=hub_querier_template(W))
        elif contract == 'reward':
            from checks.rewardmodel import RW
            W = RW(ctx)
            W.install()
            for c in W.invariant():     # INV-RW; the aggregated remainder stands for the holders no page of the table reaches
                W.st.add(c)
            migrate_frame(ctx, W, CRATE['reward'], 'basset::reward::MigrateMsg', 'basset', querier=W.querier_template())
        elif contract == 'bsei':
            from checks.tokens import TokenWorld
            import z3
            from checks.generic import World
            W = TokenWorld(ctx, 'bsei')
            a = W.add_account('a', W.sv('acct_a'), present=W.bv('a_present'))
            b = W.add_account('b', W.sv('acct_b'), present=W.bv('b_present'))
            rest = W.iv('rest_supply', 0, 2 ** 128 - 1)    # accounts beyond the ones enumerated (no page of the table reaches them)
            W.st.add(W.mv['acct_a'] != W.mv['acct_b'])
            W.st.add(W.supply == z3.If(W.mv['a_present'], a, 0) + z3.If(W.mv['b_present'], b, 0) + rest)
            World.install(W, open_default=False)
            migrate_frame(ctx, W, CRATE['bsei'], 'msg::MigrateMsg', CRATE['bsei'], querier=W.querier_template())
        else:
            raise ValueError(contract)
    ob.__doc__ = 'the %s contract\'s `migrate` entry point changes no stored item and sends nothing' % contract
    return ob


class _M:
    @staticmethod
    def ORACLE(v, scn, out):
        return migrate_oracle(scn, out)


def replay(v, run_scenario):
    from smir.replay import generic_replay
    return generic_replay(_M)(v, run_scenario)


def attach(mod_globals, contract, name=None):
    """append the obligation + its replay to a check module."""
    name = name or ('migrate_%s_frame' % contract)
    mod_globals['OBLIGATIONS'].append((name, make(contract)))
    rp = mod_globals.get('REPLAY')
    if rp is None:
        rp = {}
        mod_globals['REPLAY'] = rp
    rp[name] = replay
