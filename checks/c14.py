# C14  bSei reward pool is solvent and complete
# Inductive invariant INV-RW (atomics = 1e-18 units):  sum_h accrued_h <= prev_reward_balance * 1e18,
# prev_reward_balance <= bank balance, sum_h balance_h = total_balance, index_h <= global_index.
# Base: instantiate.  Step: every execute message from an arbitrary INV-RW state (two explicit holders that may
# alias + an aggregated remainder).
import z3
from smir.values import *   # noqa
from checks.generic import *   # noqa
from checks.rewardmodel import RW, holder_writes
from checks.hubmodel import sdiv

CRATES = ['basset_sei_reward']
BOUNDS = {'quick': {'explicit holders': '2 (caller + one other, may alias) + aggregated remainder'}, 'thorough': {}}
ASSUMPTIONS = ['E1: global index <= 1e18 (cumulative reward per bSei <= 1e18 coins; beyond that the contract\'s Decimal arithmetic may overflow-panic)', 'E1: balances, total balance, reward deliveries <= 1e18; bank balance of the reward coin >= recorded balance (E2-like: only deliveries and the contract\'s own sends change it)',
               'the hub Config query names the registered bSei token and dispatcher (E3)', 'INV-RW holds in the pre-state (proved inductive here)']
OUTSIDE = ['swap of foreign reward coins (SwapToRewardDenom) does not touch state (frame obligation)', 'more than two explicit holders: covered through the aggregated remainder']


def inv_post(W, st, p, R_acc2, R_bal2, bank2):
    d = W.distinct()
    acc_c = W.acc_of_entry(p['c'], p['G'])
    acc_o = z3.If(d, W.acc_of_entry(p['o'], p['G']), 0)
    bal_c = W.bal_of_entry(p['c'])
    bal_o = z3.If(d, W.bal_of_entry(p['o']), 0)
    return acc_c, acc_o, bal_c, bal_o


def ob_instantiate(ctx):
    W = World(ctx, 'reward')
    W.install()
    msg = W.fresh('basset::reward::InstantiateMsg', 'im')
    snd = W.sv('sender')
    n = 0
    for st, res in W.instantiate(msg, snd):
        if not is_ok(res):
            continue
        n += 1
        s = W.get_item(st, b'\x00\x05state')
        ctx.require(st, z3.And(s.fields[0].fields[0] == 0, s.fields[1].fields[0] == 0, s.fields[2].fields[0] == 0),
                    'fresh contract: index, total balance and recorded reward balance are zero (INV-RW base case)', 'instantiate:base', W.mv)
    ctx.need_witness('instantiate Ok', n > 0)


def step(variant):
    def ob(ctx):
        W = RW(ctx)
        W.install()
        I = W.I
        for c in W.invariant():
            W.st.add(c)
        amount = W.iv('amount', 0, CAP)
        if variant in ('IncreaseBalance', 'DecreaseBalance'):
            target = StrV(z3.Int('target_id'))
            W.mv['target_id'] = target.id
            W.st.add(z3.Or(target.id == W.addr_c.id, target.id == W.addr_o.id))
            msg = W.mk.variant('basset::reward::ExecuteMsg', variant, crate='basset', address=target, amount=U128(amount))
            sender = W.bsei_token
        elif variant == 'ClaimRewards':
            msg = W.mk.variant('basset::reward::ExecuteMsg', variant, crate='basset', recipient=NONE)
            sender = W.addr_c
        elif variant == 'UpdateGlobalIndex':
            msg = W.mk.variant('basset::reward::ExecuteMsg', variant, crate='basset')
            sender = W.dispatcher
        raw_scenario(W, 'execute', msg, sender, querier=W.querier_template())
        nok = 0
        A0 = W.acc(W.hc) + z3.If(W.distinct(), W.acc(W.ho), 0) + W.R_acc
        for st, res in W.execute(msg, sender):
            if isinstance(res, Panic):
                ctx.infeasible(st, '%s does not panic from a state satisfying INV-RW' % variant, '%s:panic' % variant, W.mv)
                continue
            if not is_ok(res):
                if variant == 'ClaimRewards':
                    # the only admissible failure: less than one whole unit accrued
                    ctx.require(st, W.acc(W.hc) < E, 'ClaimRewards never fails for lack of funds (only when less than one unit accrued)', 'ClaimRewards:fails', W.mv)
                if variant == 'UpdateGlobalIndex':
                    ctx.infeasible(st, 'UpdateGlobalIndex from the dispatcher never fails', 'UpdateGlobalIndex:fails', W.mv)
                if variant == 'IncreaseBalance':
                    ctx.infeasible(st, 'IncreaseBalance from the token never fails', 'IncreaseBalance:fails', W.mv)
                if variant == 'DecreaseBalance':
                    tb = z3.If(target.id == W.addr_c.id, W.bal(W.hc), W.bal(W.ho))
                    ctx.require(st, tb < amount, 'DecreaseBalance fails only when the holder has less than the amount', 'DecreaseBalance:fails', W.mv)
                continue
            nok += 1
            p = W.post(st)
            msgs = W.messages(st, res)
            sent = 0
            for m in msgs:
                if m['kind'] == 'bank_send':
                    for d_, a_ in m['coins']:
                        sent = sent + a_
            delta = p['G'] - W.G
            R_acc2 = W.R_acc + delta * W.R_bal
            acc_c, acc_o, bal_c, bal_o = inv_post(W, st, p, R_acc2, W.R_bal, W.bank)
            A2 = acc_c + acc_o + R_acc2
            bank2 = W.bank - sent
            cl = [(A2 <= p['P'] * E, 'sum of claimable rewards <= recorded reward balance (INV-RW preserved)', '%s:solvent' % variant),
                  (p['P'] <= bank2, 'recorded reward balance <= actual balance', '%s:bank' % variant),
                  (bal_c + bal_o + W.R_bal == p['T'], 'sum of holder balances = total balance', '%s:total' % variant),
                  (delta >= 0, 'global index never decreases', '%s:index' % variant)]
            for tag, h in (('c', W.hc), ('o', W.ho)):
                e = p[tag]
                if e is not None and e.val is not None and e.present is not False:
                    cl.append((z3.Implies(e.present if not isinstance(e.present, bool) else z3.BoolVal(e.present), e.val.fields[1].fields[0] <= p['G']),
                               'holder index <= global index', '%s:holder_index' % variant))
            stranded0 = W.prev_reward_balance * E - A0
            stranded2 = p['P'] * E - A2
            if variant == 'UpdateGlobalIndex':
                cl += [(z3.Implies(W.total_balance > 0, p['P'] == W.bank), 'the whole delivered amount is recorded', 'UpdateGlobalIndex:recorded'),
                       (z3.Implies(W.total_balance > 0, stranded2 - stranded0 < W.total_balance),
                        'one index update strands less than total_balance atomics (< 1 base unit)', 'UpdateGlobalIndex:dust'),
                       (z3.Implies(W.total_balance == 0, z3.And(p['P'] == W.prev_reward_balance, delta == 0)),
                        'update with no holders leaves the state untouched (rewards stay pending)', 'UpdateGlobalIndex:empty'),
                       (sent == 0, 'index update sends nothing', 'UpdateGlobalIndex:nosend')]
            else:
                cl.append((stranded2 == stranded0, 'no other message strands or creates rewards', '%s:complete' % variant))
            if variant == 'ClaimRewards':
                whole = sdiv(I, st, W.acc(W.hc), E)
                cl += [(sent == whole, 'claim pays exactly the whole-unit part of the accrued reward', 'ClaimRewards:pays'),
                       (acc_c == W.acc(W.hc) - whole * E, 'the fraction is kept for later', 'ClaimRewards:fraction'),
                       (p['P'] == W.prev_reward_balance - whole, 'recorded balance reduced by the payout', 'ClaimRewards:recorded')]
            ctx.require_all(st, cl, W.mv)
            ctx.witness('%s on two distinct holders' % variant, st, [W.distinct(), W.hc['present'], W.ho['present']], W.mv, expect='ok')
            ctx.witness('%s with aliasing holders' % variant, st, [z3.Not(W.distinct())], W.mv)
        ctx.need_witness('Ok path of ' + variant, nok > 0)
        ctx.expect_witness('distinct-holders region (%s)' % variant, 'two distinct holders')
    return ob


def ob_swap_frame(ctx):
    """SwapToRewardDenom (dispatcher only) writes nothing."""
    W = RW(ctx)
    W.install()
    msg = W.mk.variant('basset::reward::ExecuteMsg', 'SwapToRewardDenom', crate='basset')
    n = 0
    for st, res in W.execute(msg, W.dispatcher):
        if is_ok(res):
            n += 1
            if [ev for ev in st.log if ev[0] == 'write']:
                ctx.violation('SwapToRewardDenom writes state', 'swap:frame', {})
    ctx.need_witness('swap Ok path', n > 0)
    ctx.witness_found('swap explored')


OBLIGATIONS = [('instantiate', ob_instantiate)] + [(v, step(v)) for v in ('UpdateGlobalIndex', 'IncreaseBalance', 'DecreaseBalance', 'ClaimRewards')] + \
    [('swap_frame', ob_swap_frame)]


def ORACLE(v, scn, out):
    # exact re-evaluation on the real run: recompute INV-RW quantities for the explicit holders from raw storage
    import base64, json as js
    from decimal import Decimal as D
    from smir import rawstore
    key = v.get('key') or ''
    res = out.get('result', {})
    m = v['model']

    def dec(s):
        return int(D(s) * 10 ** 18)

    def state_of(pairs):
        d = {}
        for k, val in pairs:
            d[base64.b64decode(k)] = js.loads(base64.b64decode(val))
        return d
    pre, post = state_of(scn['storage']), state_of(out.get('storage', []))
    s0, s1 = pre.get(b'\x00\x05state'), post.get(b'\x00\x05state')

    def holders(d):
        hs = {}
        for k, val in d.items():
            if k.startswith(rawstore.lp(b'holders')):
                hs[k[len(rawstore.lp(b'holders')):]] = val
        return hs

    def acc_sum(d, G):
        t = 0
        bal = 0
        for k, h in holders(d).items():
            t += (G - dec(h['index'])) * int(h['balance']) + dec(h['pending_rewards'])
            bal += int(h['balance'])
        return t, bal
    what = key.split(':')[1] if ':' in key else key
    if what == 'fails' or what == 'panic':
        ok_ = 'ok' in res
        if ok_:
            return []
        if key == 'ClaimRewards:fails':
            A, _ = acc_sum({k: v_ for k, v_ in pre.items() if k == rawstore.lp(b'holders') + rawstore.canonical('holder_c')}, dec(s0['global_index']))
            return ['claim failed although %d atomics accrued: %s' % (A, str(res)[:150])] if A >= E else []
        if key == 'DecreaseBalance:fails':
            return None
        return ['failed: ' + str(res)[:200]]
    if 'ok' not in res:
        return []
    G0, G1 = dec(s0['global_index']), dec(s1['global_index'])
    rest_bal = int(m.get('rest_balance', 0))
    rest_acc = int(m.get('rest_accrued_atomics', 0))
    A0, b0 = acc_sum(pre, G0)
    A1, b1 = acc_sum(post, G1)
    A0 += rest_acc
    A1 += rest_acc + (G1 - G0) * rest_bal
    P0, P1 = int(s0['prev_reward_balance']), int(s1['prev_reward_balance'])
    sent = 0
    for sm in res['ok']['messages']:
        if 'bank' in sm['msg']:
            for c in sm['msg']['bank']['send']['amount']:
                sent += int(c['amount'])
    bank = int(scn['querier']['balances'][0]['amount'])
    bad = []
    if what == 'solvent' and A1 > P1 * E:
        bad.append('claimable %d atomics > recorded %d units' % (A1, P1))
    elif what == 'bank' and P1 > bank - sent:
        bad.append('recorded %d > bank %d' % (P1, bank - sent))
    elif what == 'total' and b1 + rest_bal != int(s1['total_balance']):
        bad.append('holder balances %d != total %s' % (b1 + rest_bal, s1['total_balance']))
    elif what == 'index' and G1 < G0:
        bad.append('index decreased')
    elif what == 'complete' and (P1 * E - A1) != (P0 * E - A0):
        bad.append('stranded atomics changed from %d to %d' % (P0 * E - A0, P1 * E - A1))
    elif what == 'dust' and int(s0['total_balance']) > 0 and (P1 * E - A1) - (P0 * E - A0) >= int(s0['total_balance']):
        bad.append('index update stranded %d atomics' % ((P1 * E - A1) - (P0 * E - A0)))
    elif what == 'recorded' and key.startswith('UpdateGlobalIndex') and int(s0['total_balance']) > 0 and P1 != bank:
        bad.append('recorded %d != delivered balance %d' % (P1, bank))
    elif what == 'pays':
        hk = rawstore.lp(b'holders') + rawstore.canonical('holder_c')
        h = pre.get(hk)
        a = ((G0 - dec(h['index'])) * int(h['balance']) + dec(h['pending_rewards'])) if h else 0
        if sent != a // E:
            bad.append('paid %d, whole units accrued %d' % (sent, a // E))
    elif what == 'recorded' and key.startswith('ClaimRewards') and P1 != P0 - sent:
        bad.append('recorded balance %d -> %d but %d paid' % (P0, P1, sent))
    elif what == 'fraction':
        hk = rawstore.lp(b'holders') + rawstore.canonical('holder_c')
        h0, h1 = pre.get(hk), post.get(hk)
        a0 = ((G0 - dec(h0['index'])) * int(h0['balance']) + dec(h0['pending_rewards'])) if h0 else 0
        a1 = ((G1 - dec(h1['index'])) * int(h1['balance']) + dec(h1['pending_rewards'])) if h1 else 0
        if a1 != a0 - (a0 // E) * E:
            bad.append('accrued %d -> %d after paying %d whole units' % (a0, a1, a0 // E))
    elif what == 'holder_index':
        for k, h in holders(post).items():
            if dec(h['index']) > G1:
                bad.append('holder index above global index')
    elif what == 'empty' and int(s0['total_balance']) == 0 and (P1 != P0 or G1 != G0):
        bad.append('state changed although nobody holds bSei')
    elif what == 'nosend' and sent:
        bad.append('index update sent coins')
    return bad

from checks import migrate as _migrate
_migrate.attach(globals(), 'reward')
