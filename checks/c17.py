# C17  Dispatcher splits rewards by bonded stake, takes a bounded fee, keeps nothing
import z3
from smir.values import *   # noqa
from checks.generic import *   # noqa
from checks.c10 import DispatcherWorld
from checks.hubmodel import sdiv

CRATES = ['basset_sei_rewards_dispatcher']
BOUNDS = {'quick': {'coins held': 'the two reward denominations + one foreign denomination', 'balances': '<= 1e27', 'oracle price': '[1e-12, 1e12]',
                    'configured swap_denoms': 'the instantiated pair, and every list of 1..2 entries over 3 denominations (repetitions allowed)'},
          'thorough': {'configured swap_denoms': 'every list of 0..3 entries over 3 denominations (repetitions allowed)'}}
ASSUMPTIONS = ['balances <= 1e27 and prices in [1e-12, 1e12] (outside: the contract\'s own Uint128 overflow panics)',
               'bonded totals <= 1e18 each and not both zero', 'swap executes at the oracle price (specified stub, C17/C19)']
OUTSIDE = ['more than one foreign denomination; swap_denoms lists longer than the bound', 'the swap contract delivering less than its simulation']
BAL = 10 ** 27
PMIN, PMAX = 10 ** 6, 10 ** 30


def world(ctx, n_swap=None):
    W = DispatcherWorld(ctx, n_swap)
    W.bal_s = W.iv('held_stsei_denom', 0, BAL)
    W.bal_b = W.iv('held_bsei_denom', 0, BAL)
    if n_swap is not None:
        W.bal_o = W.iv('held_foreign_denom', 0, BAL)
        W.sim = W.iv('simulated_return_of_foreign', 0, BAL)
    W.price = W.iv('price_stsei_in_bsei', PMIN, PMAX)
    W.install()
    return W


def zif(c, a, b):
    if isinstance(c, bool):
        return a if c else b
    return z3.If(c, a, b)


def zand(*cs):
    cs = [c for c in cs if c is not True]
    if any(c is False for c in cs):
        return False
    return z3.And(*cs) if cs else True


def ob_swap(n_swap=None):
    """n_swap=None: the instantiated configuration (both reward denoms); n_swap=k: any list of k configured denoms
    (each the stSei denom, the bSei denom or a foreign one; repetitions allowed) and a foreign balance."""
    def ob(ctx):
        W = world(ctx, n_swap)
        I = W.I
        S = I.summ
        Bs = W.iv('stsei_total_bonded', 0, CAP)
        Bb = W.iv('bsei_total_bonded', 0, CAP)
        msg = W.mk.variant('msg::ExecuteMsg', 'SwapToRewardDenom', crate=W.crate, bsei_total_bonded=U128(Bb), stsei_total_bonded=U128(Bs))
        raw_scenario(W, 'execute', msg, W.hub, querier=W.querier_template())
        nok = 0
        general = n_swap is not None
        # what the contract may use: the coins of the configured denominations, each counted once
        k_s, k_b = W.known(W.sdenom), W.known(W.bdenom)
        fs = zand(W.known(W.fdenom), W.bal_o >= 1) if general else False
        eff_s = zif(k_s, W.bal_s, 0)
        got_f = zif(fs, W.sim, 0) if general else 0
        eff_b = zif(k_b, W.bal_b, 0) + got_f
        for st, res in W.execute(msg, W.hub):
            if not is_ok(res):
                continue        # overflow panics at extreme balance x price products are outside the property
            nok += 1
            msgs = W.messages(st, res)
            inv = sdiv(I, st, E * E, W.price)
            total = eff_s + sdiv(I, st, eff_b * inv, E)
            share = sdiv(I, st, total * Bs, Bs + Bb)
            cl = [(len(msgs) <= (2 if general else 1), 'at most one swap message per coin to convert', 'swap:count')]
            off = {'s': 0, 'b': 0, 'f': 0}
            nf = 0
            for m in msgs:
                sm = m['msg']
                coin = sm.fields[0]
                denom, amt = coin.fields[0], coin.fields[1].fields[0]
                is_s = S.struct_eq(st, denom, W.sdenom)
                is_b = S.struct_eq(st, denom, W.bdenom)
                is_f = S.struct_eq(st, denom, W.fdenom)
                off['s'] = off['s'] + zif(is_s, amt, 0)
                off['b'] = off['b'] + zif(is_b, amt, 0)
                off['f'] = off['f'] + zif(is_f, amt, 0)
                nf = nf + zif(is_f, 1, 0)
                cl += [(amt >= 1, 'no zero swap', 'swap:nonzero'),
                       (z3.And(len(m['funds']) == 1, m['funds'][0][1] == amt) if m['funds'] else False, 'offered coin is attached as funds', 'swap:funds'),
                       (S.struct_eq(st, m['contract'], W.swap), 'swap goes to the configured swap contract', 'swap:target'),
                       (isinstance(sm.fields[2], Agg) and sm.fields[2].vname == 'None', 'the proceeds of every swap requested here come back to the dispatcher (no other recipient), so that the split and the keeper fee apply to them', 'swap:recipient')]
            held_ok = zand(off['s'] <= W.bal_s, off['b'] <= W.bal_b + got_f)
            if general:
                held_ok = zand(held_ok, off['f'] <= W.bal_o)
                cl.append((nf == zif(fs, 1, 0), 'a held foreign coin of a configured denomination is converted exactly once, others never', 'swap:foreign'))
                cl.append((z3.Implies(fs, off['f'] == W.bal_o) if fs is not False else True, 'the whole foreign coin is converted', 'swap:foreign_whole'))
            after_s = eff_s - off['s'] + sdiv(I, st, off['b'] * inv, E)
            cl += [(held_ok, 'never offers more of a coin than it holds (summed over the swap messages of the transaction)', 'swap:offer'),
                   (z3.And(after_s <= share, (share - after_s) * E * E <= z3.If(share > eff_s, share - eff_s, 0) * (E * E - W.price * inv) + (inv + 3 * E) * E),
                    'stSei-side share after the swap = total x stSei bonded / total bonded (within 3 units + one bSei-denom unit + the 18-digit granularity of the inverse price)', 'swap:share')]
            ctx.require_all(st, [c for c in cl if c[0] is not True], W.mv, assume=[Bs + Bb > 0])
            if msgs:
                last = msgs[-1]['msg'].fields[0].fields[0]
                ctx.witness('swap selling the stSei denom', st, [Bs + Bb > 0, S.struct_eq(st, last, W.sdenom)], W.mv, expect='ok')
                ctx.witness('swap selling the bSei denom', st, [Bs + Bb > 0, S.struct_eq(st, last, W.bdenom)], W.mv, expect='ok')
                if general and len(msgs) == 2:
                    ctx.witness('swap converting a foreign coin first', st, [Bs + Bb > 0], W.mv, expect='ok')
        ctx.need_witness('Ok path', nok > 0)
        if not general or n_swap >= 1:
            ctx.expect_witness('sell-stSei-denom region', 'selling the stSei denom')
            ctx.expect_witness('sell-bSei-denom region', 'selling the bSei denom')
        if general and n_swap >= 2:
            ctx.expect_witness('foreign coin region', 'foreign coin first')
        ctx.ob.bounds = {'configured swap denominations': 'stSei + bSei reward denom' if not general else '%d entries, any of 3 denominations, repetitions allowed' % n_swap}
    return ob


def ob_dispatch(ctx):
    W = world(ctx)
    I = W.I
    S = I.summ
    msg = W.mk.variant('msg::ExecuteMsg', 'DispatchRewards', crate=W.crate)
    raw_scenario(W, 'execute', msg, W.hub, querier=W.querier_template())
    nok = 0
    for st, res in W.execute(msg, W.hub):
        if not is_ok(res):
            ctx.infeasible(st, 'dispatch executes for every balance and keeper rate in [0,1]', 'dispatch:fails', W.mv)
            continue
        nok += 1
        msgs = W.messages(st, res)
        sent = {'s': 0, 'b': 0}
        keeper = {'s': 0, 'b': 0}
        zero = []
        order_ok = True
        seen_reward_send = False
        seen_index = False
        rebond = 0
        cl = []
        for m in msgs:
            if m['kind'] == 'bank_send':
                for d, a in m['coins']:
                    tok = 's' if d.id == W.sdenom.id else 'b'
                    sent[tok] = sent[tok] + a
                    zero.append(a >= 1)
                    if m['to'].id == W.keeper.id:
                        keeper[tok] = keeper[tok] + a
                    elif m['to'].id == W.reward.id:
                        seen_reward_send = True
                        if seen_index:
                            order_ok = False
                        cl.append((tok == 'b', 'only the bSei reward coin goes to the reward contract', 'dispatch:reward_denom'))
                    else:
                        cl.append((False, 'send to an unexpected address', 'dispatch:recipient'))
            elif m['kind'] == 'wasm_execute':
                for d, a in m['funds']:
                    tok = 's' if d.id == W.sdenom.id else 'b'
                    sent[tok] = sent[tok] + a
                    zero.append(a >= 1)
                if isinstance(m['msg'], Agg) and m['msg'].vname == 'UpdateGlobalIndex':
                    seen_index = True
                    cl.append((m['contract'].id == W.reward.id, 'index update goes to the reward contract', 'dispatch:index_target'))
                elif isinstance(m['msg'], Agg) and m['msg'].vname == 'BondRewards':
                    cl.append((m['contract'].id == W.hub.id, 'stSei share is re-bonded to the hub', 'dispatch:rebond_target'))
                    rebond = rebond + sum(a for d, a in m['funds'])
                else:
                    cl.append((False, 'unexpected contract call', 'dispatch:call'))
        ks = sdiv(I, st, W.bal_s * W.rate, E)
        kb = sdiv(I, st, W.bal_b * W.rate, E)
        cl += [(z3.And(sent['s'] == W.bal_s, sent['b'] == W.bal_b), 'everything held is sent on (keeps nothing)', 'dispatch:total'),
               (z3.And(keeper['s'] == ks, keeper['b'] == kb), 'keeper receives exactly floor(balance x rate) of each coin', 'dispatch:keeper'),
               (rebond == W.bal_s - ks, 'entire stSei remainder is re-bonded', 'dispatch:rebond'),
               (order_ok and seen_index, 'reward coins are delivered before the index update', 'dispatch:order'),
               (z3.And(*zero) if zero else True, 'never emits a transfer of zero coins', 'dispatch:zero_coin')]
        ctx.require_all(st, cl, W.mv)
        ctx.witness('dispatch with both balances positive', st, [W.bal_s > 0, W.bal_b > 0], W.mv)
        ctx.witness('dispatch with keeper rate 1', st, [W.rate == E, W.bal_b > 0], W.mv)
    ctx.need_witness('Ok path', nok > 0)
    ctx.expect_witness('both-balances region', 'both balances positive')
    ctx.expect_witness('rate = 1 region', 'keeper rate 1')


OBLIGATIONS = [('swap_to_reward_denom', ob_swap()), ('swap_denoms_1', ob_swap(1)), ('swap_denoms_2', ob_swap(2)), ('swap_denoms_0', ob_swap(0)),
               ('swap_denoms_3', ob_swap(3)), ('dispatch_rewards', ob_dispatch)]


def _keeper_rate_cfg(which):
    """the keeper rate can never be configured above 1: C20's dispatcher instantiate / UpdateConfig obligations"""
    def ob(ctx):
        import checks.c20 as c20
        return dict(c20.OBLIGATIONS)[which](ctx)
    return ob


OBLIGATIONS += [('keeper_rate_instantiate', _keeper_rate_cfg('dispatcher_instantiate')), ('keeper_rate_update_config', _keeper_rate_cfg('dispatcher_update_config'))]


def tier_filter(name, tier):
    return tier == 'thorough' or name not in ('swap_denoms_0', 'swap_denoms_3')


def ORACLE(v, scn, out):
    key = v.get('key') or ''
    if key.startswith('dispatcher_'):
        from checks.c20 import ORACLE as O20
        return O20(v, scn, out)
    res = out.get('result', {})
    q = scn['querier']
    bal = {b['denom']: int(b['amount']) for b in q['balances']}
    if key == 'dispatch:fails':
        return [] if 'ok' in res else ['dispatch failed: ' + str(res)[:200]]
    if 'ok' not in res:
        return []
    msgs = res['ok']['messages']
    bad = []
    if key.startswith('dispatch:'):
        import base64, json as js
        cfg = None
        for k, val in scn['storage']:
            if base64.b64decode(k) == b'config':
                cfg = js.loads(base64.b64decode(val))
        from decimal import Decimal as D
        rate = int(D(cfg['krp_keeper_rate']) * 10 ** 18)
        sent = {'usei': 0, 'uusd': 0}
        keeper = {'usei': 0, 'uusd': 0}
        zero = False
        for sm in msgs:
            m = sm['msg']
            if 'bank' in m:
                for c in m['bank']['send']['amount']:
                    sent[c['denom']] = sent.get(c['denom'], 0) + int(c['amount'])
                    zero = zero or int(c['amount']) == 0
                    if m['bank']['send']['to_address'] == 'keeper_addr':
                        keeper[c['denom']] = keeper.get(c['denom'], 0) + int(c['amount'])
            elif 'wasm' in m:
                for c in m['wasm']['execute']['funds']:
                    sent[c['denom']] = sent.get(c['denom'], 0) + int(c['amount'])
                    zero = zero or int(c['amount']) == 0
        what = key.split(':')[1]
        if what == 'zero_coin' and zero:
            bad.append('a transfer of zero coins is emitted: ' + str([sm['msg'] for sm in msgs])[:300])
        if what == 'total' and (sent.get('usei', 0) != bal.get('usei', 0) or sent.get('uusd', 0) != bal.get('uusd', 0)):
            bad.append('sent %r, held %r' % (sent, bal))
        if what == 'keeper' and (keeper['usei'] != bal.get('usei', 0) * rate // E or keeper['uusd'] != bal.get('uusd', 0) * rate // E):
            bad.append('keeper got %r of %r at rate %d' % (keeper, bal, rate))
        rebond, order_ok, seen_index, seen_reward = 0, True, False, False
        for sm in msgs:
            m = sm['msg']
            if 'bank' in m:
                to = m['bank']['send']['to_address']
                if to == 'reward_contract':
                    seen_reward = True
                    if seen_index:
                        order_ok = False
                    if what == 'reward_denom' and any(c['denom'] != 'uusd' for c in m['bank']['send']['amount']):
                        bad.append('reward contract is sent %r' % m['bank']['send']['amount'])
                elif to != 'keeper_addr' and what == 'recipient':
                    bad.append('send to %s' % to)
            elif 'wasm' in m:
                x = m['wasm']['execute']
                if 'update_global_index' in x['msg']:
                    seen_index = True
                    if what == 'index_target' and x['contract_addr'] != 'reward_contract':
                        bad.append('index update sent to %s' % x['contract_addr'])
                elif 'bond_rewards' in x['msg']:
                    rebond += sum(int(c['amount']) for c in x['funds'])
                    if what == 'rebond_target' and x['contract_addr'] != 'hub_contract':
                        bad.append('re-bond sent to %s' % x['contract_addr'])
                elif what == 'call':
                    bad.append('unexpected call %r' % x)
        if what == 'rebond' and rebond != bal.get('usei', 0) - bal.get('usei', 0) * rate // E:
            bad.append('re-bonded %d of %d held (keeper %d)' % (rebond, bal.get('usei', 0), bal.get('usei', 0) * rate // E))
        if what == 'order' and not (order_ok and seen_index):
            bad.append('index update missing or before the reward delivery')
        if what not in ('zero_coin', 'total', 'keeper', 'rebond', 'order', 'reward_denom', 'recipient', 'index_target', 'rebond_target', 'call'):
            return None
        return bad
    if key.startswith('swap:'):
        import base64, json as js
        from decimal import Decimal as D
        cfg = None
        for k, val in scn['storage']:
            if base64.b64decode(k) == b'config':
                cfg = js.loads(base64.b64decode(val))
        known = cfg['swap_denoms']
        sim = 0
        for sm_ in q['smart']:
            if sm_['key'] == 'query_simulation':
                sim = int(sm_['response']['return_amount'])
        fs = 'uforeign' in known and bal.get('uforeign', 0) >= 1
        eff_s = bal.get('usei', 0) if 'usei' in known else 0
        got_f = sim if fs else 0
        eff_b = (bal.get('uusd', 0) if 'uusd' in known else 0) + got_f
        off = {'usei': 0, 'uusd': 0, 'uforeign': 0}
        coins = []
        for sm in msgs:
            x = sm['msg']['wasm']['execute']
            c = x['msg']['swap_denom']['from_coin']
            off[c['denom']] = off.get(c['denom'], 0) + int(c['amount'])
            coins.append((c['denom'], int(c['amount']), x['funds'], x['contract_addr']))
        what = key.split(':')[1]
        if what == 'offer':
            if off['usei'] > bal.get('usei', 0) or off['uusd'] > bal.get('uusd', 0) + got_f or off['uforeign'] > bal.get('uforeign', 0):
                bad.append('offers %r, holds %r (+%d from the foreign conversion)' % (off, bal, got_f))
        elif what == 'count':
            if len(msgs) > 2:
                bad.append('%d swap messages' % len(msgs))
        elif what == 'nonzero':
            if any(a_ == 0 for _, a_, _, _ in coins):
                bad.append('zero swap')
        elif what == 'funds':
            for d_, a_, f_, _ in coins:
                if f_ != [{'denom': d_, 'amount': str(a_)}]:
                    bad.append('funds %r for offer %s%s' % (f_, a_, d_))
        elif what == 'recipient':
            for sm in msgs:
                to = sm['msg']['wasm']['execute']['msg']['swap_denom'].get('to_address')
                if to is not None:
                    bad.append('swap proceeds are sent to %s instead of coming back to the dispatcher' % to)
        elif what == 'target':
            if any(t_ != 'swap_contract' for _, _, _, t_ in coins):
                bad.append('swap sent to %r' % [t_ for _, _, _, t_ in coins])
        elif what in ('foreign', 'foreign_whole'):
            nf = sum(1 for d_, _, _, _ in coins if d_ == 'uforeign')
            if nf != (1 if fs else 0) or (fs and off['uforeign'] != bal.get('uforeign', 0)):
                bad.append('foreign coin converted %d times for %d of %d held (configured: %r)' % (nf, off['uforeign'], bal.get('uforeign', 0), known))
        elif what == 'share':
            price = int(D(q['smart'][0]['response']) * 10 ** 18)
            inv = E * E // price
            body = scn['msg']['swap_to_reward_denom']
            Bs, Bb = int(body['stsei_total_bonded']), int(body['bsei_total_bonded'])
            if Bs + Bb == 0:
                return []
            total = eff_s + eff_b * inv // E
            share = total * Bs // (Bs + Bb)
            after = eff_s - off['usei'] + off['uusd'] * inv // E
            if after > share or (share - after) * E * E > max(0, share - eff_s) * (E * E - price * inv) + (inv + 3 * E) * E:
                bad.append('stSei-side amount after swap %d, share %d' % (after, share))
        else:
            return None
        return bad
    return None
