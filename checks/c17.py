# C17  Dispatcher splits rewards by bonded stake, takes a bounded fee, keeps nothing
import z3
from smir.values import *   # noqa
from checks.generic import *   # noqa
from checks.c10 import DispatcherWorld
from checks.hubmodel import sdiv

CRATES = ['basset_sei_rewards_dispatcher']
BOUNDS = {'quick': {'reward coins held': 'the two reward denominations', 'balances': '<= 1e27', 'oracle price': '[1e-12, 1e12]'},
          'thorough': {'reward coins held': 'two reward denominations + one foreign swap denomination'}}
ASSUMPTIONS = ['balances <= 1e27 and prices in [1e-12, 1e12] (outside: the contract\'s own Uint128 overflow panics)',
               'bonded totals <= 1e18 each and not both zero', 'swap executes at the oracle price (specified stub, C17/C19)']
OUTSIDE = ['foreign denominations that need a swap simulation (thorough tier only)', 'keeper rate configuration (C20)']
BAL = 10 ** 27
PMIN, PMAX = 10 ** 6, 10 ** 30


def world(ctx):
    W = DispatcherWorld(ctx)
    W.bal_s = W.iv('held_stsei_denom', 0, BAL)
    W.bal_b = W.iv('held_bsei_denom', 0, BAL)
    W.price = W.iv('price_stsei_in_bsei', PMIN, PMAX)
    W.install()
    return W


def ob_swap(ctx):
    W = world(ctx)
    I = W.I
    S = I.summ
    Bs = W.iv('stsei_total_bonded', 0, CAP)
    Bb = W.iv('bsei_total_bonded', 0, CAP)
    msg = W.mk.variant('msg::ExecuteMsg', 'SwapToRewardDenom', crate=W.crate, bsei_total_bonded=U128(Bb), stsei_total_bonded=U128(Bs))
    raw_scenario(W, 'execute', msg, W.hub, querier=W.querier_template())
    nok = 0
    for st, res in W.execute(msg, W.hub):
        if not is_ok(res):
            continue        # overflow panics at extreme balance x price products are outside the property
        nok += 1
        msgs = W.messages(st, res)
        inv = sdiv(I, st, E * E, W.price)
        total = W.bal_s + sdiv(I, st, W.bal_b * inv, E)
        share = sdiv(I, st, total * Bs, Bs + Bb)
        cl = [(len(msgs) <= 1, 'at most one swap message', 'swap:count')]
        if msgs:
            m = msgs[0]
            sm = m['msg']
            coin = sm.fields[0]
            denom, amt = coin.fields[0], coin.fields[1].fields[0]
            target = sm.fields[1]
            is_s = S.struct_eq(st, denom, W.sdenom)
            held = z3.If(is_s, W.bal_s, W.bal_b) if not isinstance(is_s, bool) else (W.bal_s if is_s else W.bal_b)
            after_s = z3.If(is_s, W.bal_s - amt, W.bal_s + sdiv(I, st, amt * inv, E)) if not isinstance(is_s, bool) else \
                (W.bal_s - amt if is_s else W.bal_s + sdiv(I, st, amt * inv, E))
            cl += [(amt <= held, 'never offers more of a coin than it holds', 'swap:offer'),
                   (amt >= 1, 'no zero swap', 'swap:nonzero'),
                   (z3.And(len(m['funds']) == 1, m['funds'][0][1] == amt) if m['funds'] else False, 'offered coin is attached as funds', 'swap:funds'),
                   (S.struct_eq(st, m['contract'], W.swap), 'swap goes to the configured swap contract', 'swap:target'),
                   (z3.And(after_s <= share, (share - after_s) * E * E <= z3.If(share > W.bal_s, share - W.bal_s, 0) * (E * E - W.price * inv) + (inv + 3 * E) * E),
                    'stSei-side share after the swap = total x stSei bonded / total bonded (within 3 units + one bSei-denom unit + the 18-digit granularity of the inverse price)', 'swap:share')]
        else:
            cl += [(True, '', '')]
        ctx.require_all(st, [c for c in cl if c[2]], W.mv, assume=[Bs + Bb > 0])
        ctx.witness('swap selling the stSei denom', st, [Bs + Bb > 0, len(msgs) == 1] + ([S.struct_eq(st, msgs[0]['msg'].fields[0].fields[0], W.sdenom)] if msgs else [False]), W.mv)
        ctx.witness('swap selling the bSei denom', st, [Bs + Bb > 0, len(msgs) == 1] + ([z3.Not(S.struct_eq(st, msgs[0]['msg'].fields[0].fields[0], W.sdenom))] if msgs else [False]), W.mv)
    ctx.need_witness('Ok path', nok > 0)
    ctx.expect_witness('sell-stSei-denom region', 'selling the stSei denom')
    ctx.expect_witness('sell-bSei-denom region', 'selling the bSei denom')


def ob_dispatch(ctx):
    W = world(ctx)
    I = W.I
    S = I.summ
    msg = W.mk.variant('msg::ExecuteMsg', 'DispatchRewards', crate=W.crate)
    raw_scenario(W, 'execute', msg, W.hub, querier=W.querier_template())
    nok = 0
    for st, res in W.execute(msg, W.hub):
        if not is_ok(res):
            ctx.infeasible(st, 'dispatch executes for every balance and keeper rate in [0,1]', 'dispatch:fails', W.mv)
            continue
        nok += 1
        msgs = W.messages(st, res)
        sent = {'s': 0, 'b': 0}
        keeper = {'s': 0, 'b': 0}
        zero = []
        order_ok = True
        seen_reward_send = False
        seen_index = False
        rebond = 0
        cl = []
        for m in msgs:
            if m['kind'] == 'bank_send':
                for d, a in m['coins']:
                    tok = 's' if d.id == W.sdenom.id else 'b'
                    sent[tok] = sent[tok] + a
                    zero.append(a >= 1)
                    if m['to'].id == W.keeper.id:
                        keeper[tok] = keeper[tok] + a
                    elif m['to'].id == W.reward.id:
                        seen_reward_send = True
                        if seen_index:
                            order_ok = False
                        cl.append((tok == 'b', 'only the bSei reward coin goes to the reward contract', 'dispatch:reward_denom'))
                    else:
                        cl.append((False, 'send to an unexpected address', 'dispatch:recipient'))
            elif m['kind'] == 'wasm_execute':
                for d, a in m['funds']:
                    tok = 's' if d.id == W.sdenom.id else 'b'
                    sent[tok] = sent[tok] + a
                    zero.append(a >= 1)
                if isinstance(m['msg'], Agg) and m['msg'].vname == 'UpdateGlobalIndex':
                    seen_index = True
                    cl.append((m['contract'].id == W.reward.id, 'index update goes to the reward contract', 'dispatch:index_target'))
                elif isinstance(m['msg'], Agg) and m['msg'].vname == 'BondRewards':
                    cl.append((m['contract'].id == W.hub.id, 'stSei share is re-bonded to the hub', 'dispatch:rebond_target'))
                    rebond = rebond + sum(a for d, a in m['funds'])
                else:
                    cl.append((False, 'unexpected contract call', 'dispatch:call'))
        ks = sdiv(I, st, W.bal_s * W.rate, E)
        kb = sdiv(I, st, W.bal_b * W.rate, E)
        cl += [(z3.And(sent['s'] == W.bal_s, sent['b'] == W.bal_b), 'everything held is sent on (keeps nothing)', 'dispatch:total'),
               (z3.And(keeper['s'] == ks, keeper['b'] == kb), 'keeper receives exactly floor(balance x rate) of each coin', 'dispatch:keeper'),
               (rebond == W.bal_s - ks, 'entire stSei remainder is re-bonded', 'dispatch:rebond'),
               (order_ok and seen_index, 'reward coins are delivered before the index update', 'dispatch:order'),
               (z3.And(*zero) if zero else True, 'never emits a transfer of zero coins', 'dispatch:zero_coin')]
        ctx.require_all(st, cl, W.mv)
        ctx.witness('dispatch with both balances positive', st, [W.bal_s > 0, W.bal_b > 0], W.mv)
        ctx.witness('dispatch with keeper rate 1', st, [W.rate == E, W.bal_b > 0], W.mv)
    ctx.need_witness('Ok path', nok > 0)
    ctx.expect_witness('both-balances region', 'both balances positive')
    ctx.expect_witness('rate = 1 region', 'keeper rate 1')


OBLIGATIONS = [('swap_to_reward_denom', ob_swap), ('dispatch_rewards', ob_dispatch)]


def ORACLE(v, scn, out):
    key = v.get('key') or ''
    res = out.get('result', {})
    q = scn['querier']
    bal = {b['denom']: int(b['amount']) for b in q['balances']}
    if key == 'dispatch:fails':
        return [] if 'ok' in res else ['dispatch failed: ' + str(res)[:200]]
    if 'ok' not in res:
        return []
    msgs = res['ok']['messages']
    bad = []
    if key.startswith('dispatch:'):
        import base64, json as js
        cfg = None
        for k, val in scn['storage']:
            if base64.b64decode(k) == b'config':
                cfg = js.loads(base64.b64decode(val))
        from decimal import Decimal as D
        rate = int(D(cfg['krp_keeper_rate']) * 10 ** 18)
        sent = {'usei': 0, 'uusd': 0}
        keeper = {'usei': 0, 'uusd': 0}
        zero = False
        for sm in msgs:
            m = sm['msg']
            if 'bank' in m:
                for c in m['bank']['send']['amount']:
                    sent[c['denom']] = sent.get(c['denom'], 0) + int(c['amount'])
                    zero = zero or int(c['amount']) == 0
                    if m['bank']['send']['to_address'] == 'keeper_addr':
                        keeper[c['denom']] = keeper.get(c['denom'], 0) + int(c['amount'])
            elif 'wasm' in m:
                for c in m['wasm']['execute']['funds']:
                    sent[c['denom']] = sent.get(c['denom'], 0) + int(c['amount'])
                    zero = zero or int(c['amount']) == 0
        what = key.split(':')[1]
        if what == 'zero_coin' and zero:
            bad.append('a transfer of zero coins is emitted: ' + str([sm['msg'] for sm in msgs])[:300])
        if what == 'total' and (sent.get('usei', 0) != bal.get('usei', 0) or sent.get('uusd', 0) != bal.get('uusd', 0)):
            bad.append('sent %r, held %r' % (sent, bal))
        if what == 'keeper' and (keeper['usei'] != bal.get('usei', 0) * rate // E or keeper['uusd'] != bal.get('uusd', 0) * rate // E):
            bad.append('keeper got %r of %r at rate %d' % (keeper, bal, rate))
        if what not in ('zero_coin', 'total', 'keeper'):
            return None
        return bad
    if key == 'swap:share':
        from decimal import Decimal as D
        price = int(D(q['smart'][0]['response']) * 10 ** 18)
        inv = E * E // price
        body = scn['msg']['swap_to_reward_denom']
        Bs, Bb = int(body['stsei_total_bonded']), int(body['bsei_total_bonded'])
        if Bs + Bb == 0:
            return []
        total = bal.get('usei', 0) + bal.get('uusd', 0) * inv // E
        share = total * Bs // (Bs + Bb)
        after = bal.get('usei', 0)
        for sm in msgs:
            c = sm['msg']['wasm']['execute']['msg']['swap_denom']['from_coin']
            if c['denom'] == 'usei':
                after -= int(c['amount'])
            else:
                after += int(c['amount']) * inv // E
        if after > share or (share - after) * E * E > max(0, share - bal.get('usei', 0)) * (E * E - price * inv) + (inv + 3 * E) * E:
            bad.append('stSei-side amount after swap %d, share %d' % (after, share))
        return bad
    if key == 'swap:offer':
        for sm in msgs:
            x = sm['msg']['wasm']['execute']
            c = x['msg']['swap_denom']['from_coin']
            if int(c['amount']) > bal.get(c['denom'], 0):
                bad.append('offers %s %s, holds %d' % (c['amount'], c['denom'], bal.get(c['denom'], 0)))
        return bad
    return None
