# C05  Peg-recovery fee is bounded and never over-collects past the 1:1 peg
# One symbolic transaction through hub `execute` per fee-charging path; the pre-rate is the rate the
# handler itself synchronises at its start (first STATE write of the transaction).
import z3
from smir.values import *   # noqa
from checks.hubmodel import *     # noqa

CRATES = ['basset_sei_hub']
BOUNDS = {'quick': {'validators': 1, 'delegations': 1, 'magnitudes': '<= 1e18 (E1)'},
          'thorough': {'validators': 2, 'delegations': 2, 'magnitudes': '<= 1e18 (E1)'}}
ASSUMPTIONS = ['E1 magnitudes, E3 configuration, E4 chain facts (DESIGN.md section 4)',
               'pre-rate = rate synchronised by the handler (slashing()) at its start',
               'token supply after = supply before + Mint - Burn amounts of the emitted messages']
OUTSIDE = ['more than 2 validators / delegations (the fee arithmetic does not depend on them)']


def world(ctx, op):
    n = 1 if ctx.tier == 'quick' else 2
    W = HubWorld(ctx, n_validators=n, n_delegations=n)
    W.install()
    return W


def run(ctx, op, claims):
    W = world(ctx, op)
    nok = 0
    for st, res in start_op(W, op):
        if not is_ok(res):
            continue
        nok += 1
        e = effects(W, st, res)
        if e.sync is None:
            raise Gap('no state synchronisation observed in ' + op)
        claims(ctx, W, st, e, nok)
    ctx.need_witness('Ok path of ' + op, nok > 0)
    ctx.expect_witness('fee-charged region reachable (%s)' % op, 'with fee charged')
    ctx.expect_witness('no-fee region reachable (%s)' % op, 'without fee')
    ctx.ob.bounds = BOUNDS[ctx.tier]


def peg_claim(W, e, rb):
    return z3.Implies(rb < E, e.post['Bb'] <= e.Sb2 + e.batch['Qb'] + 2)


TXT = {'a': 'no fee at or above the threshold', 'b1': 'fee is never negative (user never gets more than the no-fee amount)',
       'b2': 'fee <= amount x peg_recovery_fee',
       'c': 'an operation starting below the peg never leaves backing above claims (+2 units)'}


def claims_bond(ctx, W, st, e, n):
    I = W.I
    rb = e.sync['rb']
    pay = W.amount
    nofee = fdiv(I, st, pay * E, rb)
    cred = e.mint_b
    ctx.require_all(st, [
        (z3.Implies(rb >= W.threshold, cred == nofee), TXT['a'], 'bond:a'),
        (cred <= nofee, TXT['b1'], 'bond:b1'),
        ((nofee - cred) * E <= nofee * W.fee, TXT['b2'], 'bond:b2'),
        (peg_claim(W, e, rb), TXT['c'], 'bond:c')], W.mv)
    if True:
        ctx.witness('bond with fee charged', st, [rb < W.threshold, cred < nofee], W.mv)
        ctx.witness('bond without fee', st, [rb >= W.threshold], W.mv)


def recorded_claim(e):
    rec = None
    for ev in e.wait_writes:
        new = ev[5].val if hasattr(ev[5], 'val') else ev[5]
        old = ev[4] if (ev[4] is not None and hasattr(ev[4], 'val') and ev[4].present is True) else None
        nb = new.fields[0].fields[0]
        ns = new.fields[1].fields[0]
        ob_ = old.val.fields[0].fields[0] if old is not None else 0
        os_ = old.val.fields[1].fields[0] if old is not None else 0
        rec = (nb - ob_, ns - os_)
    return rec


def claims_unbond(ctx, W, st, e, n):
    rb = e.sync['rb']
    amt = W.amount
    rc = recorded_claim(e)
    if rc is None:
        raise Gap('unbond without wait-list write')
    rec = rc[0]
    ctx.require_all(st, [
        (z3.Implies(rb >= W.threshold, rec == amt), TXT['a'], 'unbond:a'),
        (rec <= amt, TXT['b1'], 'unbond:b1'),
        ((amt - rec) * E <= amt * W.fee, TXT['b2'], 'unbond:b2'),
        (peg_claim(W, e, rb), TXT['c'], 'unbond:c')], W.mv)
    if True:
        ctx.witness('unbond with fee charged', st, [rb < W.threshold, rec < amt], W.mv)
        ctx.witness('unbond without fee', st, [rb >= W.threshold], W.mv)


def claims_convert_stsei(ctx, W, st, e, n):
    # stSei -> bSei: fee is taken from the minted bSei
    I = W.I
    rb, rs = e.sync['rb'], e.sync['rs']
    amt = W.amount
    value = fdiv(I, st, amt * rs, E)
    nofee = fdiv(I, st, value * E, rb)
    cred = e.mint_b
    ctx.require_all(st, [
        (z3.Implies(rb >= W.threshold, cred == nofee), TXT['a'], 'convert_stsei:a'),
        (cred <= nofee, TXT['b1'], 'convert_stsei:b1'),
        ((nofee - cred) * E <= nofee * W.fee, TXT['b2'], 'convert_stsei:b2'),
        (peg_claim(W, e, rb), TXT['c'], 'convert_stsei:c')], W.mv)
    if True:
        ctx.witness('convert stSei->bSei with fee charged', st, [rb < W.threshold, cred < nofee], W.mv)
        ctx.witness('convert stSei->bSei without fee', st, [rb >= W.threshold], W.mv)


def claims_convert_bsei(ctx, W, st, e, n):
    # bSei -> stSei: fee is taken from the bSei being converted; observable through the value moved between pools
    I = W.I
    rb, rs = e.sync['rb'], e.sync['rs']
    amt = W.amount
    moved = e.sync['Bb'] - e.post['Bb']            # coin value moved from the bSei pool to the stSei pool
    nofee_value = fdiv(I, st, amt * rb, E)
    maxfee = fdiv(I, st, amt * W.fee, E)
    least_value = fdiv(I, st, (amt - maxfee) * rb, E)
    cred = e.mint_s
    priced = fdiv(I, st, moved * E, rs)
    ctx.require_all(st, [
        (z3.Implies(rb >= W.threshold, moved == nofee_value), TXT['a'], 'convert_bsei:a'),
        (moved <= nofee_value, TXT['b1'], 'convert_bsei:b1'),
        (moved >= least_value, TXT['b2'], 'convert_bsei:b2'),
        (cred == priced, 'the moved value is credited at the stSei rate (floor)', 'convert_bsei:price'),
        (peg_claim(W, e, rb), TXT['c'], 'convert_bsei:c')], W.mv)
    if True:
        ctx.witness('convert bSei->stSei with fee charged', st, [rb < W.threshold, moved < nofee_value], W.mv)
        ctx.witness('convert bSei->stSei without fee', st, [rb >= W.threshold], W.mv)


def mk(op, claims):
    def ob(ctx):
        run(ctx, op, claims)
    return ob


OBLIGATIONS = [
    ('bond', mk('bond', claims_bond)),
    ('unbond_bsei', mk('unbond_bsei', claims_unbond)),
    ('convert_stsei_to_bsei', mk('convert_stsei', claims_convert_stsei)),
    ('convert_bsei_to_stsei', mk('convert_bsei', claims_convert_bsei)),
]


# ---------------------------------------------------------------------- replay
OPKEY = {'bond': 'bond', 'unbond': 'unbond_bsei', 'convert_stsei': 'convert_stsei', 'convert_bsei': 'convert_bsei'}


def replay_any(v, run_scenario):
    if (v.get('key') or '').startswith('hub_update_params:'):
        from smir.replay import generic_replay
        import checks.c20 as c20
        return generic_replay(c20)(v, run_scenario)
    m = v['model']
    key = v.get('key') or ''
    opk, claim = key.split(':')
    op = OPKEY[opk]
    scn = hub_scenario(m, op)
    out = run_scenario(scn)
    if 'error' in out:
        return {'status': 'unavailable', 'detail': out['error']}
    bad = oracle(m, op, claim, out)
    return {'status': 'reproduced' if bad else 'mismatch', 'scenario': scn, 'output': out, 'oracle': bad,
            'detail': '' if bad else 'real code satisfies the claim on the model input'}


def oracle(m, op, claim, out):
    """re-evaluate the C05 claims with exact integers on the real run's output."""
    e = real_effects(out)
    if not e['ok']:
        return []          # the claims are about accepted operations
    syn = out['synced_state']
    post = out['storage']['state']
    batch = out['storage']['current_batch']
    from decimal import Decimal as D

    def atom(s):
        return int(D(s) * (10 ** 18))
    rb = atom(syn['bsei_exchange_rate'])
    rs = atom(syn['stsei_exchange_rate'])
    thr = mget(m, 'er_threshold')
    fee = mget(m, 'peg_recovery_fee')
    amt = mget(m, 'amount')
    Bb2 = int(post['total_bond_bsei_amount'])
    Sb2 = mget(m, 'S_bsei') + e['mint_b'] - e['burn_b']
    Qb2 = int(batch['requested_bsei_with_fee'])
    bad = []
    if claim == 'c':
        if rb < E and Bb2 > Sb2 + Qb2 + 2:
            bad.append('bSei rate before %d/1e18 < 1 but afterwards backing %d > claims %d + 2' % (rb, Bb2, Sb2 + Qb2))
        return bad
    if op == 'bond':
        nofee = amt * E // rb
        cred = e['mint_b']
    elif op == 'convert_stsei':
        nofee = (amt * rs // E) * E // rb
        cred = e['mint_b']
    elif op == 'unbond_bsei':
        nofee = amt
        waits = [w for w in out['storage']['waits'] if w['addr'] == ADDR['user']]
        cred = sum(int(w['bsei']) for w in waits)
    else:
        moved = int(syn['total_bond_bsei_amount']) - Bb2
        nofee = amt * rb // E
        cred = moved
        if claim == 'b2':
            least = (amt - amt * fee // E) * rb // E
            return ['moved value %d below the least admissible %d' % (moved, least)] if moved < least else []
        if claim == 'price':
            return ['minted %d != floor(moved*1e18/rate) %d' % (e['mint_s'], moved * E // rs)] if e['mint_s'] != moved * E // rs else []
    if claim == 'a' and rb >= thr and cred != nofee:
        bad.append('rate %d >= threshold %d but credited %d != no-fee amount %d' % (rb, thr, cred, nofee))
    if claim == 'b1' and cred > nofee:
        bad.append('credited %d > no-fee amount %d' % (cred, nofee))
    if claim == 'b2' and (nofee - cred) * E > nofee * fee:
        bad.append('fee %d exceeds amount x fee rate' % (nofee - cred))
    return bad


def _threshold_kept(ctx):
    """the threshold and fee rate the four fee paths read are the ones the owner configured: an UpdateParams that omits them
    leaves them unchanged (world and claims of C20's hub UpdateParams obligation)"""
    from checks.c20 import ob_hub_update_params
    return ob_hub_update_params(ctx)


OBLIGATIONS.append(('configured_threshold_and_fee_kept', _threshold_kept))

REPLAY = {'*': replay_any}

from checks import migrate as _migrate
_migrate.attach(globals(), 'hub')
