# C10  Privileged operations are rejected for every unauthorised sender
# For every contract and every privileged message variant: symbolic sender (may alias anything except the
# designated principals), symbolic message fields, symbolic stored principals -> no Ok path is feasible;
# with the principal as sender an Ok path exists (witness).  Variants are enumerated from the parsed
# ExecuteMsg enums; a variant without a classification is an encoder gap (exit 2).
import z3
from smir.values import *   # noqa
from smir.env import Entry
from checks.generic import *   # noqa
from checks.hubmodel import HubWorld, HUB, hub_querier_template

CRATES = ['basset_sei_hub', 'basset_sei_rewards_dispatcher', 'basset_sei_reward', 'basset_sei_validators_registry',
          'basset_sei_token_bsei', 'basset_sei_token_stsei']
BOUNDS = {'quick': {'vector-typed message fields': 'length 1', 'registry content': '1 validator'}, 'thorough': {}}
ASSUMPTIONS = ['A-ADDR: address validation/canonicalisation is the identity on address ids (sender != principal means different ids)',
               'a rejected message changes nothing: CosmWasm discards all writes of a failed execution (DESIGN 3.2)',
               'sibling-contract addresses answered by the hub/dispatcher Config queries are the registered ones (E3)']
OUTSIDE = ['message vectors longer than 1', 'public variants (listed per contract in the evidence notes)']

PUBLIC = {
    'hub': ['Bond', 'BondForStSei', 'WithdrawUnbonded', 'CheckSlashing', 'MigrateUnbondWaitList'],
    'reward': ['ClaimRewards'],
    'dispatcher': [],
    'registry': ['Redelegations'],
    'bsei': ['Transfer', 'Send', 'IncreaseAllowance', 'DecreaseAllowance', 'TransferFrom', 'SendFrom', 'BurnFrom'],
    'stsei': ['Transfer', 'Send', 'IncreaseAllowance', 'DecreaseAllowance', 'TransferFrom', 'SendFrom', 'BurnFrom'],
}
MSG_TY = {'hub': ('basset::hub::ExecuteMsg', HUB), 'reward': ('basset::reward::ExecuteMsg', 'basset_sei_reward'),
          'dispatcher': ('msg::ExecuteMsg', 'basset_sei_rewards_dispatcher'), 'registry': ('msg::ExecuteMsg', 'basset_sei_validators_registry'),
          'bsei': ('cw20_legacy::msg::ExecuteMsg', 'basset_sei_token_bsei'), 'stsei': ('cw20::Cw20ExecuteMsg', 'cw20')}

# principal names per privileged variant
PRIV = {
    'hub': {'UpdateConfig': ['owner'], 'UpdateParams': ['owner'], 'SetOwner': ['owner'], 'AcceptOwnership': ['pending'],
            'BondRewards': ['dispatcher'], 'RedelegateProxy': ['registry'], 'UpdateGlobalIndex': ['updater', 'registry'],
            'SwapHook': ['self'], 'ClaimAirdrop': ['airdrop'], 'Receive': ['bsei_token', 'stsei_token']},
    'reward': {'UpdateConfig': ['owner'], 'SetOwner': ['owner'], 'AcceptOwnership': ['pending'], 'UpdateSwapDenom': ['owner'],
               'SwapToRewardDenom': ['dispatcher'], 'UpdateGlobalIndex': ['dispatcher'], 'IncreaseBalance': ['bsei_token'],
               'DecreaseBalance': ['bsei_token']},
    'dispatcher': {'SwapToRewardDenom': ['hub'], 'DispatchRewards': ['hub'], 'UpdateConfig': ['owner'], 'SetOwner': ['owner'],
                   'AcceptOwnership': ['pending'], 'UpdateSwapContract': ['owner'], 'UpdateSwapDenom': ['owner'],
                   'UpdateOracleContract': ['owner']},
    'registry': {'AddValidator': ['owner', 'hub'], 'RemoveValidator': ['owner'], 'UpdateConfig': ['owner'], 'SetOwner': ['owner'],
                 'AcceptOwnership': ['pending']},
    'bsei': {'Mint': ['hub'], 'Burn': ['hub']},
    'stsei': {'Mint': ['hub'], 'Burn': ['hub'], 'UpdateMinter': ['hub'], 'UpdateMarketing': ['marketing'], 'UploadLogo': ['marketing']},
}


# ---------------------------------------------------------------------- worlds
def hub_world(ctx):
    W = HubWorld(ctx, n_validators=1, n_delegations=1)
    W.pending = W.I.S('pending_owner')
    W.principals = {'owner': W.owner, 'pending': W.pending, 'dispatcher': W.dispatcher, 'registry': W.registry,
                    'updater': W.updater, 'self': W.hub_addr, 'airdrop': W.airdrop, 'bsei_token': W.bsei_token,
                    'stsei_token': W.stsei_token}
    # every optional contract address of the configuration may still be unset (a hub configured step by step)
    opt = {}
    for fname, who in (('reward_dispatcher_contract', W.dispatcher), ('validators_registry_contract', W.registry), ('bsei_token_contract', W.bsei_token),
                       ('stsei_token_contract', W.stsei_token), ('airdrop_registry_contract', W.airdrop), ('rewards_contract', W.rewards)):
        opt[fname] = SymEnum(W.iv('cfg_%s_set' % fname, 0, 1), (NONE, some(W.mk.caddr(who))))
    W.install(config=W.config_value(**opt), new_owner=W.pending)
    W.sv = lambda name: sv_(W, name)
    return W


def sv_(W, name):
    v = z3.Int(name)
    W.mv[name] = v
    return StrV(v)


class RewardWorld(World):
    def __init__(self, ctx):
        World.__init__(self, ctx, 'reward')
        I = self.I
        self.owner, self.pending, self.hub = I.S('owner_addr'), I.S('pending_owner'), I.S('hub_contract')
        self.dispatcher, self.bsei_token = I.S('dispatcher_contract'), I.S('bsei_token')
        self.reward_denom = I.S('uusd')
        self.G = self.iv('global_index', 0, 10 ** 36)    # E1: cumulative reward per bSei <= 1e18 coins
        self.total_balance = self.iv('total_balance', 0, CAP)
        self.prev_reward_balance = self.iv('prev_reward_balance', 0, CAP)
        self.bank = self.iv('reward_bank_balance', 0, CAP)
        cfg = self.mk.struct('state::Config', self.crate, owner=self.mk.caddr(self.owner), hub_contract=self.mk.caddr(self.hub),
                             reward_denom=self.reward_denom, swap_contract=self.mk.caddr(I.S('swap_contract')),
                             swap_denoms=VecV([I.S('uatom')]))
        self.item(b'\x00\x06config', cfg)
        self.item(b'\x00\x05state', self.mk.struct('state::State', self.crate, global_index=DEC(self.G),
                                                    total_balance=U128(self.total_balance), prev_reward_balance=U128(self.prev_reward_balance)))
        self.item(b'\x00\x08newowner', Agg('NewOwnerAddr', (self.mk.caddr(self.pending),)))
        self.principals = {'owner': self.owner, 'pending': self.pending, 'dispatcher': self.dispatcher, 'bsei_token': self.bsei_token}

    def add_holder(self, tag, addr):
        h = dict(addr=addr, balance=self.iv('h%s_balance' % tag, 0, CAP), index=self.iv('h%s_index' % tag, 0, U128_MAX),
                 pending=self.iv('h%s_pending' % tag, 0, U128_MAX))
        self.map_entry('holders', (('s', addr.id),), self.mk.struct('state::Holder', self.crate, balance=U128(h['balance']),
                                                                    index=DEC(h['index']), pending_rewards=DEC(h['pending'])),
                       present=True)
        return h

    def hub_config_response(self):
        mk = self.mk
        return mk.struct('basset::hub::ConfigResponse', 'basset', owner=self.I.S('hub_owner'), update_reward_index_addr=self.I.S('index_updater'),
                         reward_dispatcher_contract=some(self.dispatcher), validators_registry_contract=some(self.I.S('registry_contract')),
                         bsei_token_contract=some(self.bsei_token), stsei_token_contract=some(self.I.S('stsei_token')),
                         airdrop_registry_contract=NONE, token_contract=some(self.bsei_token))

    def q_smart(self, st, addr, msg, target_ty, crate):
        if isinstance(msg, Agg) and msg.ty == 'QueryMsg' and msg.vname == 'Config':
            yield st, ok(self.hub_config_response())
            return
        raise Gap('reward world: smart query %r' % (msg,))

    def q_bank_balance(self, st, addr, denom):
        yield st, self.bank

    def q_all_balances(self, st, addr):
        yield st, [self.mk.coin(self.bank, self.reward_denom), self.mk.coin(self.iv('other_bal', 0, CAP), self.I.S('uatom'))]

    def querier_template(self):
        def q(T):
            me = T.string(self.self_addr)
            return {'balances': [{'address': me, 'denom': 'uusd', 'amount': T.value(U128(self.bank))}],
                    'smart': [{'contract': T.string(self.hub), 'key': 'config', 'response': T.value(self.hub_config_response(), 'basset')}]}
        return q


class DispatcherWorld(World):
    def __init__(self, ctx, n_swap=None):
        """n_swap=None: swap_denoms = [stSei reward denom, bSei reward denom]; n_swap=k: a list of k symbolic entries, each one of
        {stSei reward denom, bSei reward denom, a foreign denom} (repetitions allowed: update_swap_denom does not de-duplicate),
        and the contract also holds a balance of the foreign denom."""
        World.__init__(self, ctx, 'dispatcher')
        I = self.I
        self.owner, self.pending, self.hub = I.S('owner_addr'), I.S('pending_owner'), I.S('hub_contract')
        self.reward, self.keeper, self.swap, self.oracle = I.S('reward_contract'), I.S('keeper_addr'), I.S('swap_contract'), I.S('oracle_contract')
        self.sdenom, self.bdenom = I.S('usei'), I.S('uusd')
        self.rate = self.iv('keeper_rate', 0, E)
        self.bal_s = self.iv('balance_stsei_denom', 0, CAP)
        self.bal_b = self.iv('balance_bsei_denom', 0, CAP)
        self.fdenom = I.S('uforeign')
        self.bal_o, self.sim = None, None
        swap_list = [self.sdenom, self.bdenom]
        if n_swap is not None:
            swap_list = [self.sv('swap_denom_%d' % i) for i in range(n_swap)]
            for d in swap_list:
                self.st.add(z3.Or(d.id == self.sdenom.id, d.id == self.bdenom.id, d.id == self.fdenom.id))
            self.bal_o = self.iv('balance_foreign_denom', 0, CAP)
            self.sim = self.iv('swap_simulation_return', 0, CAP)
        self.swap_list = swap_list
        self.cfg = self.mk.struct('state::Config', self.crate, owner=self.mk.caddr(self.owner), hub_contract=self.mk.caddr(self.hub),
                                  bsei_reward_contract=self.mk.caddr(self.reward), stsei_reward_denom=self.sdenom, bsei_reward_denom=self.bdenom,
                                  krp_keeper_address=self.mk.caddr(self.keeper), krp_keeper_rate=DEC(self.rate),
                                  swap_contract=self.mk.caddr(self.swap), swap_denoms=VecV(swap_list),
                                  oracle_contract=self.mk.caddr(self.oracle))
        self.item('config', self.cfg)
        self.item('newowneraddr', Agg('NewOwnerAddr', (self.mk.caddr(self.pending),)))
        self.principals = {'owner': self.owner, 'pending': self.pending, 'hub': self.hub}
        self.price = self.iv('oracle_price', 1, U128_MAX)

    def known(self, d):
        """is denom d in the configured swap_denoms list"""
        cs = [x.id == d.id for x in self.swap_list]
        cs = [c for c in cs if c is not False]
        if any(c is True for c in cs):
            return True
        return z3.Or(*cs) if cs else False

    def q_bank_balance(self, st, addr, denom):
        S = self.I.summ
        for st2, t in self.I.truth(st, S.struct_eq(st, denom, self.sdenom)):
            if t:
                yield st2, self.bal_s
            elif self.bal_o is None:
                yield st2, self.bal_b
            else:
                for st3, t3 in self.I.truth(st2, S.struct_eq(st2, denom, self.bdenom)):
                    yield st3, (self.bal_b if t3 else self.bal_o)

    def q_all_balances(self, st, addr):
        out = [self.mk.coin(self.bal_s, self.sdenom), self.mk.coin(self.bal_b, self.bdenom)]
        if self.bal_o is not None:
            out.append(self.mk.coin(self.bal_o, self.fdenom))
        yield st, out

    def q_smart(self, st, addr, msg, target_ty, crate):
        if isinstance(msg, Agg) and msg.vname == 'QueryExchangeRateByAssetLabel':
            yield st, ok(DEC(self.price))
            return
        if isinstance(msg, Agg) and msg.vname == 'QuerySimulation' and self.sim is not None:
            yield st, ok(self.mk.struct('SimulationResponse', 'basset', return_amount=U128(self.sim), spread_amount=U128(0), commission_amount=U128(0)))
            return
        raise Gap('dispatcher world: smart query %r' % (msg,))

    def querier_template(self):
        def q(T):
            me = T.string(self.self_addr)
            q_ = {'balances': [{'address': me, 'denom': 'usei', 'amount': T.value(U128(self.bal_s))},
                               {'address': me, 'denom': 'uusd', 'amount': T.value(U128(self.bal_b))}],
                  'smart': [{'contract': T.string(self.oracle), 'key': 'query_exchange_rate_by_asset_label', 'response': T.value(DEC(self.price))}]}
            if self.bal_o is not None:
                q_['balances'].append({'address': me, 'denom': 'uforeign', 'amount': T.value(U128(self.bal_o))})
                q_['smart'].append({'contract': T.string(self.swap), 'key': 'query_simulation',
                                    'response': {'return_amount': T.value(U128(self.sim)), 'spread_amount': '0', 'commission_amount': '0'}})
            return q_
        return q


class RegistryWorld(World):
    def __init__(self, ctx, n=1):
        World.__init__(self, ctx, 'registry')
        I = self.I
        self.owner, self.pending, self.hub = I.S('owner_addr'), I.S('pending_owner'), I.S('hub_contract')
        self.item('config', self.mk.struct('registry::Config', self.crate, owner=self.mk.caddr(self.owner), hub_contract=self.mk.caddr(self.hub)))
        self.item('newowneraddr', Agg('NewOwnerAddr', (self.mk.caddr(self.pending),)))
        self.vals = [I.S('rval%d' % i) for i in range(n)]
        for v in self.vals:
            self.map_entry('validators_registry', (('s', v.id),), Agg('Validator', (v,)))
        self.closed = [('M', b'validators_registry')]
        self.principals = {'owner': self.owner, 'pending': self.pending, 'hub': self.hub}
        self.del_amounts = [self.iv('deleg_%d' % i, 0, CAP) for i in range(n)]
        self.removed_amount = self.iv('removed_delegation', 0, CAP)
        self.can_redelegate = self.iv('can_redelegate', 0, CAP)
        self.denom = I.S('usei')
        # the chain's validator set (only consulted by code that asks for it): two names that may or may not coincide with
        # registered validators
        self.chain_vals = [self.sv('chain_validator_%d' % i) for i in range(2)]

    def q_all_validators(self, st):
        yield st, [Agg('Validator', (v, DEC(0), DEC(E18), DEC(E18))) for v in self.chain_vals]

    def q_all_delegations(self, st, delegator):
        yield st, [self.mk.struct('Delegation', 'cosmwasm_std', delegator=self.mk.addr(self.hub), validator=v,
                                  amount=self.mk.coin(a, self.denom)) for v, a in zip(self.vals, self.del_amounts)]

    def q_delegation(self, st, delegator, validator):
        fd = self.mk.struct('FullDelegation', 'cosmwasm_std', delegator=self.mk.addr(self.hub), validator=validator,
                            amount=self.mk.coin(self.removed_amount, self.denom), can_redelegate=self.mk.coin(self.can_redelegate, self.denom),
                            accumulated_rewards=VecV(()))
        has = self.bv('removed_has_delegation')
        for st2, t in self.I.truth(st, has):
            yield st2, (some(fd) if t else NONE)


def token_world(which):
    def mkw(ctx):
        from checks.tokens import TokenWorld
        W = TokenWorld(ctx, which)
        W.install()
        return W
    return mkw


WORLDS = {'bsei': token_world('bsei'), 'stsei': token_world('stsei'), 'hub': hub_world, 'reward': lambda ctx: _inst(RewardWorld(ctx)), 'dispatcher': lambda ctx: _inst(DispatcherWorld(ctx)),
          'registry': lambda ctx: _inst(RegistryWorld(ctx))}


def _inst(W):
    W.install()
    return W


def principal_ids(W, names):
    return [W.principals[n].id for n in names]


def mk_unauth(contract, variant):
    def ob(ctx):
        ty, crate = MSG_TY[contract]
        W0 = WORLDS[contract](ctx)
        lens = [1]
        if has_vec_field(W0, ty, variant, crate):
            lens = [0, 1] if ctx.tier == 'quick' else [0, 1, 2]
        n = 0
        for vl in lens:
            # run A: sender differs from every designated principal -> no Ok path
            W = WORLDS[contract](ctx)
            sender = sv_(W, 'sender')
            msg = sym_msg(W, ty, variant, crate, veclen=vl)
            for pid in principal_ids(W, PRIV[contract][variant]):
                W.st.add(sender.id != pid)
            funds = [W.mk.coin(W.iv('funds_amount', 0, CAP), W.I.S('usei'))] if variant in ('BondRewards',) else []
            q = hub_querier_template(W) if contract == 'hub' else (W.querier_template() if hasattr(W, 'querier_template') else None)
            raw_scenario(W, 'execute', msg, sender, funds, querier=q)
            for st, res in W.execute(msg, sender, funds):
                n += 1
                if is_ok(res):
                    ctx.infeasible(st, '%s::%s succeeds for a sender that is not %s' % (contract, variant, '/'.join(PRIV[contract][variant])),
                                   '%s:%s:unauthorised' % (contract, variant), W.mv)
        ctx.need_witness('paths explored', n > 0)
        ctx.ob.bounds = {'vector lengths': lens}
        # run B: each principal can get through (first Ok path is the witness)
        for pn in PRIV[contract][variant]:
            W2 = WORLDS[contract](ctx)
            msg2 = sym_msg(W2, ty, variant, crate)
            funds2 = [W2.mk.coin(W2.iv('funds_amount', 1, CAP), W2.I.S('usei'))] if variant in ('BondRewards',) else []
            found = False
            for st, res in W2.execute(msg2, W2.principals[pn], funds2):
                if is_ok(res):
                    ctx.witness('%s::%s accepted from %s' % (contract, variant, pn), st, True, W2.mv)
                    found = True
                    break
            ctx.need_witness('%s::%s has an Ok path for %s' % (contract, variant, pn), found)
            ctx.expect_witness('%s::%s accepted from %s (solver)' % (contract, variant, pn), '%s::%s accepted from %s' % (contract, variant, pn))
    return ob


def ob_classification(ctx):
    """every ExecuteMsg variant of every contract is classified public or privileged."""
    I = ctx.interp()
    for c, (ty, crate) in MSG_TY.items():
        td = I.types.lookup(ty, crate)
        if td is None:
            raise Gap('message enum of %s not found' % c)
        for vn, vk, vf in td.variants:
            if vn not in PUBLIC[c] and vn not in PRIV[c]:
                raise Gap('unclassified message variant %s::%s (extend PUBLIC/PRIV in checks/c10.py)' % (c, vn))
    ctx.ob.paths += 1
    ctx.witness_found('all variants classified')
    ctx.sample({c: {'public': PUBLIC[c], 'privileged': PRIV[c]} for c in MSG_TY})


def ownership(contract, cfg_key, cfg_ty, owner_field, pending_key):
    """SetOwner stores the nominee and leaves the owner; AcceptOwnership by the nominee makes it the owner."""
    def ob(ctx):
        ty, crate = MSG_TY[contract]
        W = WORLDS[contract](ctx)
        S = W.I.summ
        nominee = sv_(W, 'nominee')
        msg = W.mk.variant(ty, 'SetOwner', crate=crate, new_owner_addr=nominee)
        n = 0
        q = hub_querier_template(W) if contract == 'hub' else (W.querier_template() if hasattr(W, 'querier_template') else None)
        raw_scenario(W, 'execute', msg, W.principals['owner'], querier=q)
        for st, res in W.execute(msg, W.principals['owner']):
            if not is_ok(res):
                continue
            n += 1
            cfg = (W.item(st, cfg_key) if contract == 'hub' else W.get_item(st, cfg_key))
            pend = (W.item(st, pending_key) if contract == 'hub' else W.get_item(st, pending_key))
            own = W.mk.field(cfg, cfg_ty, owner_field, W.crate)
            ctx.require_all(st, [(S.struct_eq(st, own, W.mk.caddr(W.principals['owner'])), 'nomination leaves the owner unchanged', contract + ':set_owner:owner'),
                                 (S.struct_eq(st, pend.fields[0], W.mk.caddr(nominee)), 'nominee is recorded', contract + ':set_owner:pending')], W.mv)
        ctx.need_witness('SetOwner Ok path', n > 0)
        W2 = WORLDS[contract](ctx)
        S = W2.I.summ
        msg = W2.mk.variant(ty, 'AcceptOwnership', crate=crate)
        n = 0
        q2 = hub_querier_template(W2) if contract == 'hub' else (W2.querier_template() if hasattr(W2, 'querier_template') else None)
        raw_scenario(W2, 'execute', msg, W2.principals['pending'], querier=q2)
        for st, res in W2.execute(msg, W2.principals['pending']):
            if not is_ok(res):
                continue
            n += 1
            cfg = (W2.item(st, cfg_key) if contract == 'hub' else W2.get_item(st, cfg_key))
            own = W2.mk.field(cfg, cfg_ty, owner_field, W2.crate)
            pend2 = (W2.item(st, pending_key) if contract == 'hub' else W2.get_item(st, pending_key))
            ctx.require_all(st, [(S.struct_eq(st, own, W2.mk.caddr(W2.principals['pending'])), 'after acceptance the nominee is the owner (the ex-owner is no longer)',
                                  contract + ':accept:owner'),
                                 (S.struct_eq(st, pend2.fields[0], W2.mk.caddr(W2.principals['pending'])),
                                  'after acceptance nobody but the new owner is recorded as nominee (the ex-owner cannot accept again)', contract + ':accept:pending')], W2.mv)
        ctx.need_witness('AcceptOwnership Ok path', n > 0)
    return ob


OBLIGATIONS = [('classification', ob_classification)]
for _c in ('hub', 'reward', 'dispatcher', 'registry', 'bsei', 'stsei'):
    for _v in PRIV[_c]:
        OBLIGATIONS.append(('%s_%s' % (_c, _v), mk_unauth(_c, _v)))
OBLIGATIONS += [
    ('hub_ownership', ownership('hub', b'\x00\x06config', 'basset::hub::Config', 'creator', b'\x00\x08newowner')),
    ('reward_ownership', ownership('reward', b'\x00\x06config', 'state::Config', 'owner', b'\x00\x08newowner')),
    ('dispatcher_ownership', ownership('dispatcher', 'config', 'state::Config', 'owner', 'newowneraddr')),
    ('registry_ownership', ownership('registry', 'config', 'registry::Config', 'owner', 'newowneraddr')),
]


def _token_addresses_fixed(ctx):
    """the bSei and stSei token addresses cannot be changed once set, whatever the rest of the configuration is
    (either, both or none of the two registered): world and claims of C20's hub_update_config obligation"""
    from checks.c20 import ob_hub_update_config
    return ob_hub_update_config(ctx)


OBLIGATIONS.append(('hub_token_addresses_fixed', _token_addresses_fixed))


def _dispatcher_principal(ctx):
    """'dispatcher swap/dispatch (hub only)' in an evolved state: the hub (and the reward contract) the owner designates with
    UpdateConfig is the one stored when the call returns, whatever other fields the same message carries — so the next
    transaction's sender check compares with the designated principal (world, claims and replay of C20's
    dispatcher_update_config obligation)"""
    from checks.c20 import OBLIGATIONS as O20
    return dict(O20)['dispatcher_update_config'](ctx)


OBLIGATIONS.append(('dispatcher_principal_designated', _dispatcher_principal))


def ORACLE(v, scn, out):
    key = v.get('key') or ''
    if key.startswith('hub_update_config:') or key.startswith('dispatcher_UpdateConfig:'):
        from checks.c20 import ORACLE as O20
        return O20(v, scn, out)
    if ':set_owner:' in key or ':accept:' in key:
        import base64, json as js
        from smir import rawstore
        res = out.get('result', {})
        if 'ok' not in res:
            return []
        contract = key.split(':')[0]
        ck, of, pk = {'hub': (b'\x00\x06config', 'creator', b'\x00\x08newowner'), 'reward': (b'\x00\x06config', 'owner', b'\x00\x08newowner'),
                      'dispatcher': (b'config', 'owner', b'newowneraddr'), 'registry': (b'config', 'owner', b'newowneraddr')}[contract]

        def items(pairs):
            return {base64.b64decode(k_): js.loads(base64.b64decode(v_)) for k_, v_ in pairs if base64.b64decode(k_) in (ck, pk)}
        pre, post = items(scn['storage']), items(out.get('storage', []))
        canon = lambda a: base64.b64encode(rawstore.canonical(a)).decode()   # noqa
        what = key.split(':', 1)[1]
        if what == 'set_owner:owner':
            return [] if post[ck][of] == pre[ck][of] else ['owner changed by a nomination']
        if what == 'set_owner:pending':
            nominee = scn['msg']['set_owner']['new_owner_addr']
            got = list(post[pk].values())[0] if isinstance(post[pk], dict) else post[pk]
            return [] if got == canon(nominee) else ['recorded nominee %r, nominated %s' % (got, nominee)]
        if what == 'accept:owner':
            return [] if post[ck][of] == canon(scn['info']['sender']) else ['owner after acceptance is not the nominee']
        if what == 'accept:pending':
            got = list(post[pk].values())[0] if isinstance(post[pk], dict) else post[pk]
            return [] if got == canon(scn['info']['sender']) else ['recorded nominee after acceptance is %r, not the new owner' % (got,)]
        return None
    if key.endswith(':unauthorised'):
        return ['accepted: ' + str(out['result'])[:200]] if 'ok' in out.get('result', {}) else []
    return None
