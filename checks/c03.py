# C03  Reported exchange rates equal backing over claims and price every mint/redeem
import z3
from smir.values import *   # noqa
from checks.hubmodel import *     # noqa

CRATES = ['basset_sei_hub']
BOUNDS = {'quick': {'validators': 1, 'delegations': 1}, 'thorough': {'validators': 2, 'delegations': 2}}
ASSUMPTIONS = ['E1, E3, E4 (DESIGN.md section 4)', 'stake is bonded: the hub has a delegation entry and the booked total is > 0 '
               '(otherwise the property does not constrain the reported rate)',
               'token supply observable at the same moment = the supply the token contracts report (querier fact)']
OUTSIDE = ['peg-fee size (C05)', 'stored rate fields between transactions (never read without re-synchronisation while stake is bonded)']


def ob_state_query(ctx):
    """query(State) on an arbitrary state: reported rates = reported pool / (supply + open requests), or 1."""
    n = 1 if ctx.tier == 'quick' else 2
    W = HubWorld(ctx, n_validators=1, n_delegations=n)
    W.install()
    I = W.I
    qmsg = W.mk.variant('basset::hub::QueryMsg', 'State', crate=HUB)
    nok = 0
    for st, res in W.query(W.st, qmsg):
        ctx.ob.paths += 1
        if not is_ok(res):
            ctx.infeasible(st, 'State query succeeds while stake is bonded', 'state_query:fails', W.mv,
                           [W.Bb + W.Bs > 0, W.Bb + W.Bs <= W.D])
            continue
        nok += 1
        r = res.fields[0]
        r = r.v if isinstance(r, JsonV) else r
        f = {n_: (x.fields[0] if isinstance(x, Agg) else x) for n_, x in zip(
            ['rb', 'rs', 'Bb', 'Bs', 'last_index', 'prev', 'last_unbonded', 'last_processed', 'total_bond_amount', 'exchange_rate'],
            r.fields)}
        bonded = W.Bb + W.Bs > 0
        sb = spec_rate(I, st, f['Bb'], W.Sb + W.Qb)
        ss = spec_rate(I, st, f['Bs'], W.Ss + W.Qs)
        ctx.require_all(st, [
            (z3.Implies(bonded, f['rb'] == sb), 'reported bSei rate = reported pool / (supply + requests), 1 if either is zero', 'state_query:bsei'),
            (z3.Implies(bonded, f['rs'] == ss), 'reported stSei rate = reported pool / (supply + requests), 1 if either is zero', 'state_query:stsei'),
            (z3.And(f['exchange_rate'] == f['rb'], f['total_bond_amount'] == f['Bb']), 'legacy fields mirror the bSei ones', 'state_query:legacy'),
            (z3.Implies(W.D >= W.Bb + W.Bs, z3.And(f['Bb'] == W.Bb, f['Bs'] == W.Bs)), 'reported pools are the booked pools when nothing was slashed', 'state_query:pools'),
        ], W.mv)
        ctx.witness('state query with stake bonded', st, [bonded, W.Sb > 0, W.Ss > 0], W.mv)
        ctx.witness('state query with empty bSei supply', st, [bonded, W.Sb + W.Qb == 0], W.mv)
    ctx.need_witness('Ok path', nok > 0)
    ctx.expect_witness('bonded region', 'stake bonded')
    ctx.expect_witness('zero-supply region', 'empty bSei supply')


def pricing(op):
    def ob(ctx):
        n = 1 if ctx.tier == 'quick' else 2
        W = HubWorld(ctx, n_validators=n, n_delegations=n)
        W.install()
        I = W.I
        nok = 0
        for st, res in start_op(W, op):
            if not is_ok(res):
                continue
            nok += 1
            e = effects(W, st, res)
            if e.sync is None:
                raise Gap('no synchronisation observed in ' + op)
            rb, rs = e.sync['rb'], e.sync['rs']
            amt = W.amount
            bonded = z3.And(e.sync['Bb'] + e.sync['Bs'] > 0)
            cl = [
                # the rate every handler prices with is backing over claims of the synchronised state
                (z3.Implies(bonded, rb == spec_rate(I, st, e.sync['Bb'], W.Sb + W.Qb)), 'pricing bSei rate = pool/(supply+requests)', op + ':rate_b'),
                (z3.Implies(bonded, rs == spec_rate(I, st, e.sync['Bs'], W.Ss + W.Qs)), 'pricing stSei rate = pool/(supply+requests)', op + ':rate_s'),
            ]
            if op == 'bond':
                nofee = sdiv(I, st, amt * E, rb)
                cl += [(e.mint_b <= nofee, 'bond mints at most floor(payment/rate)', op + ':mint'),
                       (e.mint_b * rb <= amt * E, 'rounding in the pool\'s favour', op + ':round'),
                       (e.post['Bb'] == e.sync['Bb'] + amt, 'payment is added to the bSei pool', op + ':pool'),
                       (z3.And(e.mint_s == 0, e.burn_b == 0, e.burn_s == 0, e.post['Bs'] == e.sync['Bs']), 'nothing else moves', op + ':frame'),
                       (amt >= 1, 'no tokens for a zero payment', op + ':zero')]
            elif op == 'bond_stsei':
                nofee = sdiv(I, st, amt * E, rs)
                cl += [(e.mint_s == nofee, 'bond mints floor(payment/rate) stSei', op + ':mint'),
                       (e.mint_s * rs <= amt * E, 'rounding in the pool\'s favour', op + ':round'),
                       (e.post['Bs'] == e.sync['Bs'] + amt, 'payment is added to the stSei pool', op + ':pool'),
                       (z3.And(e.mint_b == 0, e.burn_b == 0, e.burn_s == 0, e.post['Bb'] == e.sync['Bb']), 'nothing else moves', op + ':frame'),
                       (amt >= 1, 'no tokens for a zero payment', op + ':zero')]
            elif op == 'convert_stsei':
                value = sdiv(I, st, amt * rs, E)
                nofee = sdiv(I, st, value * E, rb)
                cl += [(z3.And(e.sync['Bs'] - e.post['Bs'] == value, e.post['Bb'] - e.sync['Bb'] == value),
                        'coin value floor(tokens x source rate) moves between the pools', op + ':value'),
                       (e.mint_b <= nofee, 'credited at most floor(value/destination rate)', op + ':mint'),
                       (z3.And(e.mint_b * rb <= value * E, value * E <= amt * rs), 'roundings in the pools\' favour', op + ':round'),
                       (z3.And(e.burn_s == amt, e.mint_s == 0, e.burn_b == 0), 'burns exactly the tokens sent', op + ':burn'),
                       (z3.Implies(e.mint_b > 0, amt >= 1), 'no tokens for zero input', op + ':zero')]
            elif op == 'convert_bsei':
                moved = e.sync['Bb'] - e.post['Bb']
                cl += [(e.post['Bs'] - e.sync['Bs'] == moved, 'value leaving the bSei pool enters the stSei pool', op + ':value'),
                       (moved * E <= amt * rb, 'value moved at most floor(tokens x source rate)', op + ':round_src'),
                       (e.mint_s == sdiv(I, st, moved * E, rs), 'credited floor(value/destination rate)', op + ':mint'),
                       (e.mint_s * rs <= moved * E, 'rounding in the pool\'s favour', op + ':round'),
                       (z3.And(e.burn_b == amt, e.mint_b == 0, e.burn_s == 0), 'burns exactly the tokens sent', op + ':burn'),
                       (z3.Implies(e.mint_s > 0, amt >= 1), 'no tokens for zero input', op + ':zero')]
            elif op in ('unbond_bsei', 'unbond_stsei'):
                und = e.batch['id'] == W.batch_id + 1
                if e.history_writes:
                    h = e.history_writes[-1][5]
                    h = h.val if hasattr(h, 'val') else h
                    hb, hbr, hs, hsr = h.fields[2].fields[0], h.fields[3].fields[0], h.fields[5].fields[0], h.fields[6].fields[0]
                    want = sdiv(I, st, hb * hbr, E) + sdiv(I, st, hs * hsr, E)
                    cl += [(e.undelegated == want, 'batch undelegated for floor(requests x rate) coins', op + ':undelegate'),
                           (e.undelegated * E <= hb * hbr + hs * hsr, 'rounding in the pool\'s favour', op + ':round'),
                           ((hbr == spec_rate(I, st, e.sync['Bb'], e.Sb2 + hb)) if op == 'unbond_bsei' else (hbr == rb),
                            'batch bSei rate = pool/(post-burn supply + requests)', op + ':batch_rate_b'),
                           (hsr == rs, 'batch stSei rate = the synchronised stSei rate', op + ':batch_rate_s')]
                else:
                    cl += [(e.undelegated == 0, 'no undelegation without a history entry', op + ':undelegate')]
                cl += [(z3.And(e.mint_b == 0, e.mint_s == 0), 'unbond mints nothing', op + ':frame')]
            ctx.require_all(st, cl, W.mv)
            ctx.witness('%s with stake bonded' % op, st, [bonded, amt > 0], W.mv)
        ctx.need_witness('Ok path of ' + op, nok > 0)
        ctx.expect_witness('bonded region (%s)' % op, 'with stake bonded')
    return ob


def ob_zero_payment(ctx):
    """Bond / BondForStSei / BondRewards with a zero coin, no coin or a foreign denom: rejected on every path."""
    for op in ('bond', 'bond_stsei', 'bond_rewards'):
        for funds in ('zero', 'none', 'foreign'):
            W = HubWorld(ctx, n_validators=1, n_delegations=1)
            W.install()
            user = W.I.S('user_a')
            if funds == 'zero':
                f = [W.mk.coin(0, W.denom)]
            elif funds == 'none':
                f = []
            else:
                f = [W.mk.coin(W.iv('amount', 0, CAP), W.I.S('uother'))]
            sender = W.dispatcher if op == 'bond_rewards' else user
            name = {'bond': 'Bond', 'bond_stsei': 'BondForStSei', 'bond_rewards': 'BondRewards'}[op]
            for st, res in W.execute(W.msg(name), sender, f):
                if is_ok(res):
                    ctx.infeasible(st, 'no tokens / bookkeeping for a zero payment', 'zero_payment:%s:%s' % (op, funds), W.mv)
    ctx.witness_found('all 9 combinations executed')


OBLIGATIONS = [('state_query', ob_state_query), ('zero_payment', ob_zero_payment)] + \
    [(op, pricing(op)) for op in ['bond', 'bond_stsei', 'convert_stsei', 'convert_bsei', 'unbond_bsei', 'unbond_stsei']]


def replay_any(v, run_scenario):
    m = v['model']
    key = v.get('key') or ':'
    op = key.split(':')[0]
    if op == 'state_query':
        scn = hub_scenario(m, 'check_slashing')
        scn['steps'] = [{'entry': 'query', 'msg': {'state': {}}, 'info': {'sender': 'x'}}]
        out = run_scenario(scn)
        if 'error' in out:
            return {'status': 'unavailable', 'detail': out['error']}
        bad = []
        r = out['result'].get('ok')
        if r and mget(m, 'B_bsei') + mget(m, 'B_stsei') > 0:
            from decimal import Decimal as D
            for key2, sup, q in (('bsei', 'S_bsei', 'Q_bsei'), ('stsei', 'S_stsei', 'Q_stsei')):
                B = int(r['total_bond_%s_amount' % key2])
                cl = mget(m, sup) + mget(m, q)
                want = E if (B == 0 or cl == 0) else B * E // cl
                got = int(D(r[key2 + '_exchange_rate']) * 10 ** 18)
                if got != want:
                    bad.append('%s rate reported %d, pool/claims = %d' % (key2, got, want))
        return {'status': 'reproduced' if bad else 'mismatch', 'scenario': scn, 'output': out, 'oracle': bad}
    if op == 'zero_payment':
        _, zop, zf = key.split(':')
        scn = hub_scenario(m, zop)
        scn['info']['funds'] = [] if zf == 'none' else ([{'denom': 'usei', 'amount': '0'}] if zf == 'zero' else [{'denom': 'uother', 'amount': str(mget(m, 'amount'))}])
        out = run_scenario(scn)
        if 'error' in out:
            return {'status': 'unavailable', 'detail': out['error']}
        bad = ['%s accepted with %s funds: %s' % (zop, zf, str(out['result'])[:200])] if 'ok' in out.get('result', {}) else []
        return {'status': 'reproduced' if bad else 'mismatch', 'scenario': scn, 'output': out, 'oracle': bad}
    scn = hub_scenario(m, op)
    out = run_scenario(scn)
    if 'error' in out:
        return {'status': 'unavailable', 'detail': out['error']}
    e = real_effects(out)
    bad = []
    if e['ok']:
        from decimal import Decimal as D
        syn = out['synced_state']
        post = out['storage']['state']
        rb = int(D(syn['bsei_exchange_rate']) * 10 ** 18)
        rs = int(D(syn['stsei_exchange_rate']) * 10 ** 18)
        Bb1, Bs1 = int(syn['total_bond_bsei_amount']), int(syn['total_bond_stsei_amount'])
        Bb2, Bs2 = int(post['total_bond_bsei_amount']), int(post['total_bond_stsei_amount'])
        amt = mget(m, 'amount')
        cb = mget(m, 'S_bsei') + mget(m, 'Q_bsei')
        cs = mget(m, 'S_stsei') + mget(m, 'Q_stsei')
        if Bb1 + Bs1 > 0:
            if rb != (E if (Bb1 == 0 or cb == 0) else Bb1 * E // cb):
                bad.append('pricing bSei rate %d != pool/claims' % rb)
            if rs != (E if (Bs1 == 0 or cs == 0) else Bs1 * E // cs):
                bad.append('pricing stSei rate %d != pool/claims' % rs)
        if op == 'bond':
            if e['mint_b'] > amt * E // rb or Bb2 != Bb1 + amt or amt < 1:
                bad.append('bond pricing: minted %d for %d at rate %d, pool %d -> %d' % (e['mint_b'], amt, rb, Bb1, Bb2))
        if op == 'bond_stsei':
            if e['mint_s'] != amt * E // rs or Bs2 != Bs1 + amt or amt < 1:
                bad.append('bond_stsei pricing: minted %d for %d at rate %d' % (e['mint_s'], amt, rs))
        if op == 'convert_stsei':
            value = amt * rs // E
            if Bs1 - Bs2 != value or Bb2 - Bb1 != value or e['mint_b'] > value * E // rb or e['burn_s'] != amt:
                bad.append('convert stSei->bSei: value %d, pools %d->%d / %d->%d, minted %d' % (value, Bs1, Bs2, Bb1, Bb2, e['mint_b']))
        if op == 'convert_bsei':
            moved = Bb1 - Bb2
            if Bs2 - Bs1 != moved or moved * E > amt * rb or e['mint_s'] != moved * E // rs or e['burn_b'] != amt:
                bad.append('convert bSei->stSei: moved %d, minted %d' % (moved, e['mint_s']))
        if op.startswith('unbond'):
            hs = out['storage']['histories']
            if e['undelegated'] or hs:
                h = hs[-1] if hs else None
                if h is None:
                    bad.append('undelegation without history entry')
                else:
                    want = int(h['bsei_amount']) * int(h['bsei_applied_exchange_rate']) // E + \
                        int(h['stsei_amount']) * int(h['stsei_applied_exchange_rate']) // E
                    if e['undelegated'] != want:
                        bad.append('undelegated %d != floor(requests x rate) %d' % (e['undelegated'], want))
                    hb = int(h['bsei_amount'])
                    Sb2 = mget(m, 'S_bsei') - e['burn_b']
                    wantb = rb if op == 'unbond_stsei' else (E if (Bb1 == 0 or Sb2 + hb == 0) else Bb1 * E // (Sb2 + hb))
                    if int(h['bsei_applied_exchange_rate']) != wantb:
                        bad.append('batch bSei rate %s != %d' % (h['bsei_applied_exchange_rate'], wantb))
                    if int(h['stsei_applied_exchange_rate']) != rs:
                        bad.append('batch stSei rate %s != %d' % (h['stsei_applied_exchange_rate'], rs))
    return {'status': 'reproduced' if bad else 'mismatch', 'scenario': scn, 'output': out, 'oracle': bad}


REPLAY = {'*': replay_any}


def _undelegated_d8(ctx):
    """'a batch of unbond requests is undelegated for floor(requests x rate) coins' with many delegation entries (8 validators
    with equal stake): the Undelegate messages sum to exactly what leaves the books, so no cap on the number of messages or of
    validators considered applies (world, claims and replay of C02's unbond obligation)"""
    from checks.c02 import mk as mk2, equal_delegations
    return mk2('unbond_bsei', 1, 8, shape=equal_delegations)(ctx)


def _replay_d8(v, run_scenario):
    from checks.c02 import replay_any as r2
    return r2(v, run_scenario)


OBLIGATIONS.append(('undelegated_amount_d8_equal', _undelegated_d8))
REPLAY['undelegated_amount_d8_equal'] = _replay_d8
