# C07  Every unbonded token is recorded in exactly one batch claim of its sender
import z3
from smir.values import *   # noqa
from smir.framework import vars_of
from checks.hubmodel import *     # noqa
from checks.generic import sym_msg, has_vec_field, raw_scenario

CRATES = ['basset_sei_hub']
BOUNDS = {'quick': {'claimants with an entry in the open batch': 'cw20 sender (entry may or may not exist) + one other', 'delegations': 1,
                    'frame check': 'every ExecuteMsg variant, vector fields of length 0..1'}, 'thorough': {}}
ASSUMPTIONS = ['E1, E3, E4', 'the cw20 sender reported in the hook is the account the token contract names (token side: C16/C18)',
               'H3: batch ids of history entries are below the open batch id']
OUTSIDE = ['MigrateUnbondWaitList (legacy migration, only callable while paused) rewrites legacy entries into the new list',
           'which account a token names as sender for SendFrom (cw20: the spender) is the token contract\'s documented behaviour']
MSG = 'basset::hub::ExecuteMsg'


def unbond_world(ctx):
    W = HubWorld(ctx, n_validators=1, n_delegations=1)
    I = W.I
    W.sender = StrV(z3.Int('cw20_sender'))
    W.mv['cw20_sender'] = W.sender.id
    W.other = I.S('user_b')
    W.st.add(W.sender.id != W.other.id)
    pres = z3.Bool('sender_entry_present')
    W.mv['sender_entry_present'] = pres
    W.w_s = W.add_wait('s', W.sender, W.batch_id)
    W.w_o = W.add_wait('o', W.other, W.batch_id)
    W.install()
    # make the sender's entry optional
    ents = list(W.st.stores[HUB].entries)
    for i, e in enumerate(ents):
        if e.fam == ('B', b'v2_wait') and e.key[0][1] is W.sender.id:
            ents[i] = e.replace(present=pres)
    from smir.env import Store
    W.st.stores[HUB] = Store(ents, closed=frozenset(W.closed), open_default=False)
    # the open batch totals cover the explicit entries
    W.st.add(z3.If(pres, W.w_s['bsei'], 0) + W.w_o['bsei'] <= W.Qb, z3.If(pres, W.w_s['stsei'], 0) + W.w_o['stsei'] <= W.Qs)
    W.pres = pres
    return W


def ob_unbond(tok):
    def ob(ctx):
        W = unbond_world(ctx)
        I = W.I
        amount = W.iv('amount', 0, CAP)
        W.amount = amount
        token = W.bsei_token if tok == 'b' else W.stsei_token
        msg = W.receive('Unbond', W.sender, amount)
        raw_scenario(W, 'execute', msg, token, querier=hub_querier_template(W))
        nok = 0
        old_b = z3.If(W.pres, W.w_s['bsei'], 0)
        old_s = z3.If(W.pres, W.w_s['stsei'], 0)
        for st, res in W.execute(msg, token):
            if not is_ok(res):
                continue
            nok += 1
            e = effects(W, st, res)
            cl = []
            new_b = new_s = None
            for ev in e.wait_writes:
                key = ev[3]
                cl.append((z3.And(key[0][1] == W.sender.id, key[1][1] == W.batch_id), 'only the cw20 sender\'s entry in the open batch is written', 'unbond_%s:key' % tok))
                new = ev[5].val if hasattr(ev[5], 'val') else ev[5]
                if new is None:
                    cl.append((False, 'an unbond never deletes a claim', 'unbond_%s:delete' % tok))
                else:
                    new_b, new_s = new.fields[0].fields[0], new.fields[1].fields[0]
            if new_b is None:
                cl.append((False, 'the claim is recorded', 'unbond_%s:recorded' % tok))
                ctx.require_all(st, cl, W.mv)
                continue
            rec_b, rec_s = new_b - old_b, new_s - old_s
            undelegated = e.batch['id'] == W.batch_id + 1
            if tok == 'b':
                cl += [(z3.And(rec_b <= amount, rec_b >= 0), 'bSei claim = amount sent less the peg fee (C05)', 'unbond_b:claim'),
                       (rec_s == 0, 'the other token\'s claim is untouched', 'unbond_b:other_token'),
                       (z3.And(e.burn_b == amount, e.burn_s == 0), 'burns exactly the tokens sent, of the token that sent the hook', 'unbond_b:burn')]
            else:
                cl += [(rec_s == amount, 'stSei claim = amount sent', 'unbond_s:claim'),
                       (rec_b == 0, 'the other token\'s claim is untouched', 'unbond_s:other_token'),
                       (z3.And(e.burn_s == amount, e.burn_b == 0), 'burns exactly the tokens sent, of the token that sent the hook', 'unbond_s:burn')]
            cl.append((z3.And(e.mint_b == 0, e.mint_s == 0), 'unbond mints nothing', 'unbond_%s:nomint' % tok))
            if e.history_writes:
                h = e.history_writes[-1][5]
                h = h.val if hasattr(h, 'val') else h
                hid = e.history_writes[-1][3][0][1]
                cl += [(z3.And(h.fields[2].fields[0] == W.Qb + rec_b, h.fields[5].fields[0] == W.Qs + rec_s),
                        'the batch total stored in the history = sum of all recorded claims of the batch', 'unbond_%s:history_total' % tok),
                       (z3.And(hid == W.batch_id, h.fields[0] == W.batch_id), 'the history entry is stored under the batch id', 'unbond_%s:history_id' % tok),
                       (z3.And(e.batch['id'] == W.batch_id + 1, e.batch['Qb'] == 0, e.batch['Qs'] == 0), 'the next batch opens empty', 'unbond_%s:next_batch' % tok),
                       (h.fields[8] == False, 'a fresh history entry is unreleased', 'unbond_%s:unreleased' % tok)]   # noqa
            else:
                cl += [(z3.And(e.batch['Qb'] == W.Qb + rec_b, e.batch['Qs'] == W.Qs + rec_s, e.batch['id'] == W.batch_id),
                        'the open batch total grows by exactly the recorded claim', 'unbond_%s:batch_total' % tok)]
            ctx.require_all(st, cl, W.mv)
            ctx.witness('unbond_%s topping up an existing entry' % tok, st, [W.pres], W.mv)
            ctx.witness('unbond_%s creating a new entry' % tok, st, [z3.Not(W.pres)], W.mv)
            ctx.witness('unbond_%s with undelegation' % tok, st, [z3.BoolVal(bool(e.history_writes))], W.mv)
        ctx.need_witness('Ok path', nok > 0)
        ctx.expect_witness('existing entry region', 'topping up')
        ctx.expect_witness('new entry region', 'creating a new entry')
        ctx.expect_witness('undelegation region', 'with undelegation')
    return ob


def ob_frame(variant):
    """no message other than WithdrawUnbonded deletes a claim; only Receive(Unbond) creates/updates one"""
    def ob(ctx):
        W0 = HubWorld(ctx)
        lens = [1]
        if has_vec_field(W0, MSG, variant, HUB):
            lens = [0, 1]
        n = 0
        for vl in lens:
            W = HubWorld(ctx, n_validators=1, n_delegations=1)
            user = W.I.S('user_b')
            h = W.add_history('1', released=None)
            W.st.add(h['id'] < W.batch_id)
            W.add_wait('1', user, h['id'])
            W.add_wait('2', user, W.batch_id)
            W.install()
            sender = StrV(z3.Int('sender'))
            W.mv['sender'] = sender.id
            msg = sym_msg(W, MSG, variant, HUB, veclen=vl)
            funds = [W.mk.coin(W.iv('funds_amount', 0, CAP), W.denom)]
            raw_scenario(W, 'execute', msg, sender, funds, querier=hub_querier_template(W))
            for st, res in W.execute(msg, sender, funds):
                if not is_ok(res):
                    continue
                n += 1
                for ev in st.log:
                    if ev[0] == 'write' and ev[2] == ('B', b'v2_wait'):
                        new = ev[5].val if hasattr(ev[5], 'val') else ev[5]
                        removed = new is None
                        if variant == 'WithdrawUnbonded':
                            ctx.require(st, ev[3][0][1] == sender.id, 'a withdrawal only touches the caller\'s own claims', 'frame:%s:own' % variant, W.mv)
                            if not removed:
                                ctx.violation('WithdrawUnbonded rewrites a claim', 'frame:%s:rewrite' % variant, {})
                        elif variant == 'Receive':
                            if removed:
                                ctx.violation('a Receive hook deletes a claim', 'frame:%s:delete' % variant, {})
                        else:
                            ctx.violation('%s modifies the claim list' % variant, 'frame:%s:write' % variant, {})
        ctx.ob.paths += 0
        ctx.witness_found('frame of %s explored (%d Ok paths)' % (variant, n))
    return ob


def ob_withdraw_released_only(ctx):
    """claims are removed only for released batches, and the unreleased ones stay"""
    W = HubWorld(ctx, n_validators=1, n_delegations=1)
    W.I.contracts_on = {'SignedInt::from_subtraction', 'Uint256*Decimal256', 'calculate_new_withdraw_rate'}
    user = W.I.S('user_a')
    h1 = W.add_history('1', released=False)
    h2 = W.add_history('2', released=False)
    W.st.add(h1['id'] == W.last_processed + 1, h2['id'] == W.last_processed + 2, W.batch_id == W.last_processed + 3)
    W.st.add(h1['time'] + W.unbonding <= W.now, h2['time'] + W.unbonding > W.now, h1['time'] <= h2['time'])
    for h in (h1, h2):
        W.st.add(h['bsei_wr'] <= 10 * E, h['stsei_wr'] <= 10 * E)
    W.add_wait('1', user, h1['id'])
    W.add_wait('2', user, h2['id'])
    W.add_wait('3', user, W.batch_id)
    W.st.add(W.hub_balance >= W.prev_hub_balance, W.unbonding <= W.now)
    W.install()
    raw_scenario(W, 'execute', W.msg('WithdrawUnbonded'), user, querier=hub_querier_template(W))
    n = 0
    for st, res in W.execute(W.msg('WithdrawUnbonded'), user):
        if not is_ok(res):
            continue
        n += 1
        left = [e for e in st.stores[HUB].entries if e.fam == ('B', b'v2_wait') and e.present is not False]
        keys = [e.key[1][1] for e in left]
        # released flags after the call (whether a batch may be released now is the time-lock, C08)
        rel = {}
        for he in st.stores[HUB].entries:
            if he.fam == ('P', b'history_map') and he.present is not False:
                rel[he.key[0][1]] = he.val.fields[8]

        def released_after(bid):
            cs = [z3.And(k_ == bid, r_ == True) if not isinstance(r_, bool) else (k_ == bid if r_ else False) for k_, r_ in rel.items()]   # noqa
            cs = [c for c in cs if c is not False]
            return z3.Or(*cs) if cs else False
        cl = []
        for bid in (h1['id'], h2['id'], W.batch_id):
            kept = z3.Or(*[k_ == bid for k_ in keys]) if keys else False
            ra = released_after(bid)
            cl.append((z3.Or(kept, ra) if ra is not False else kept, 'claims on unreleased batches (not yet matured, still open) survive a withdrawal', 'withdraw:keeps_unreleased'))
            cl.append((z3.Not(z3.And(kept, ra)) if ra is not False else True, 'the claim on every released batch is removed', 'withdraw:removes_released'))
        ctx.require_all(st, [c for c in cl if c[0] is not True], W.mv)
    ctx.need_witness('withdraw Ok path', n > 0)
    ctx.witness_found('withdraw with one matured, one immature and one open batch')


def ob_queries(ctx):
    """UnbondRequests / AllHistory report the stored entries"""
    W = HubWorld(ctx, n_validators=1, n_delegations=1)
    user = W.I.S('user_a')
    h = W.add_history('1', released=None)
    W.st.add(h['id'] < W.batch_id)
    w1 = W.add_wait('1', user, h['id'])
    w2 = W.add_wait('2', user, W.batch_id)
    W.install()
    QM = 'basset::hub::QueryMsg'
    n = 0
    raw_scenario(W, 'query', W.mk.variant(QM, 'UnbondRequests', crate=HUB, address=user), user, querier=hub_querier_template(W))
    for st, res in W.query(W.st, W.mk.variant(QM, 'UnbondRequests', crate=HUB, address=user)):
        ctx.ob.paths += 1
        if not is_ok(res):
            ctx.infeasible(st, 'UnbondRequests succeeds', 'query:requests_fails', W.mv)
            continue
        n += 1
        r = res.fields[0]
        r = r.v if isinstance(r, JsonV) else r
        items = r.fields[1].items
        want = {(h['id'], w1['bsei'], w1['stsei']), (W.batch_id, w2['bsei'], w2['stsei'])}
        got = [(x.fields[0], x.fields[1].fields[0], x.fields[2].fields[0]) for x in items]
        ok2 = len(got) == 2
        conds = []
        for (i, b, s) in want:
            conds.append(z3.Or(*[z3.And(g[0] == i, g[1] == b, g[2] == s) for g in got]) if got else False)
        ctx.require(st, z3.And(*conds) if ok2 else False, 'UnbondRequests reports every stored claim of the address with both amounts', 'query:requests', W.mv)
    ctx.need_witness('UnbondRequests Ok', n > 0)
    n = 0
    # the cursor is exclusive: absent, or any number (below, equal to or above the stored batch id)
    cursor = W.iv('history_cursor', 0, 2 ** 40)
    start_from = SymEnum(W.iv('history_cursor_given', 0, 1), (NONE, some(cursor)))
    shown = z3.Or(W.mv['history_cursor_given'] == 0, cursor < h['id'])
    qmsg = W.mk.variant(QM, 'AllHistory', crate=HUB, start_from=start_from, limit=NONE)
    raw_scenario(W, 'query', qmsg, user, querier=hub_querier_template(W))
    for st, res in W.query(W.st, qmsg):
        ctx.ob.paths += 1
        if not is_ok(res):
            continue
        n += 1
        r = res.fields[0]
        r = r.v if isinstance(r, JsonV) else r
        items = r.fields[0].items
        if len(items) != 1:
            ctx.require(st, z3.And(z3.Not(shown), z3.BoolVal(len(items) == 0)), 'AllHistory reports every stored batch after the cursor (and nothing before it)', 'query:history_count', W.mv)
            continue
        ctx.require(st, shown, 'AllHistory reports every stored batch after the cursor (and nothing before it)', 'query:history_count', W.mv)
        x = items[0]
        f = lambda i: (x.fields[i].fields[0] if isinstance(x.fields[i], Agg) else x.fields[i])   # noqa
        ctx.require(st, z3.And(f(0) == h['id'], f(1) == h['time'], f(2) == h['bsei'], f(3) == h['bsei_applied'], f(4) == h['bsei_wr'],
                               f(5) == h['stsei'], f(6) == h['stsei_applied'], f(7) == h['stsei_wr'], f(8) == h['released']),
                    'AllHistory reports the stored batch entry faithfully', 'query:history', W.mv)
    ctx.need_witness('AllHistory Ok', n > 0)
    ctx.witness_found('queries explored')


def ob_requests_many(ctx, n=40):
    """UnbondRequests with many claims of one address (n wait-list entries with the concrete batch ids 1..n, symbolic amounts):
    every one of them is reported — no page size, cap or cut-off applies to this query"""
    W = HubWorld(ctx, n_validators=1, n_delegations=1)
    user = W.I.S('user_a')
    ws = [W.add_wait('m%d' % i, user, i + 1) for i in range(n)]
    W.install()
    QM = 'basset::hub::QueryMsg'
    qmsg = W.mk.variant(QM, 'UnbondRequests', crate=HUB, address=user)
    raw_scenario(W, 'query', qmsg, user, querier=hub_querier_template(W))
    k = 0
    for st, res in W.query(W.st, qmsg):
        ctx.ob.paths += 1
        if not is_ok(res):
            ctx.infeasible(st, 'UnbondRequests succeeds', 'query:requests_fails', W.mv)
            continue
        k += 1
        r = res.fields[0]
        r = r.v if isinstance(r, JsonV) else r
        got = [(x.fields[0], x.fields[1].fields[0], x.fields[2].fields[0]) for x in r.fields[1].items]
        conds = []
        for i, w in enumerate(ws):
            conds.append(z3.Or(*[z3.And(g[0] == i + 1, g[1] == w['bsei'], g[2] == w['stsei']) for g in got]) if got else False)
        ctx.require(st, z3.And(*conds) if len(got) == n else False,
                    'UnbondRequests reports every stored claim of the address with both amounts', 'query:requests', W.mv)
    ctx.need_witness('UnbondRequests Ok (%d entries)' % n, k > 0)
    ctx.witness_found('UnbondRequests explored with %d entries' % n)
    ctx.ob.bounds = {'wait-list entries of the address': '%d (batch ids 1..%d concrete, amounts symbolic)' % (n, n)}


VARIANTS = ['UpdateConfig', 'UpdateParams', 'SetOwner', 'AcceptOwnership', 'Bond', 'BondForStSei', 'BondRewards', 'UpdateGlobalIndex',
            'WithdrawUnbonded', 'CheckSlashing', 'Receive', 'ClaimAirdrop', 'SwapHook', 'RedelegateProxy']
OBLIGATIONS = [('unbond_bsei', ob_unbond('b')), ('unbond_stsei', ob_unbond('s')), ('withdraw_released_only', ob_withdraw_released_only),
               ('queries', ob_queries), ('requests_many_n40', ob_requests_many)] + [('frame_%s' % v, ob_frame(v)) for v in VARIANTS]


def ORACLE(v, scn, out):
    from checks.c01 import decode_hub
    key = v.get('key') or ''
    res = out.get('result', {})
    if 'ok' not in res:
        return []
    pre, post = decode_hub(scn['storage']), decode_hub(out.get('storage', []))
    bad = []
    if key.startswith('query:'):
        r = res['ok']
        if key.startswith('query:requests'):
            who = scn['msg']['unbond_requests']['address']
            want = sorted((b_, int(w_['bsei_amount']), int(w_['stsei_amount'])) for (a_, b_), w_ in pre['wait'].items() if a_ == who)
            got = sorted((int(x[0]), int(x[1]), int(x[2])) for x in r['requests'])
            return [] if got == want else ['UnbondRequests reports %r, stored %r' % (got, want)]
        cur_ = scn['msg']['all_history'].get('start_from')
        want = [pre['hist'][i] for i in sorted(pre['hist']) if cur_ is None or i > int(cur_)][:10]
        got = r['history']
        norm = lambda h_: {k_: (str(v_) if not isinstance(v_, bool) else v_) for k_, v_ in h_.items()}   # noqa
        same = len(got) == len(want) and all(all(norm(g_).get(k_) == v_ for k_, v_ in norm(w_).items()) for g_, w_ in zip(got, want))
        return [] if same else ['AllHistory reports %r, stored %r' % (got, want)]
    if key.startswith('unbond_'):
        tok, what = key.split(':')[0][-1], key.split(':')[1]
        import base64, json as js
        body = scn['msg']['receive']
        sender, amount = body['sender'], int(body['amount'])
        bid = int(pre['items'][b'\x00\x0dcurrent_batch']['id'])
        o = pre['wait'].get((sender, bid), {'bsei_amount': '0', 'stsei_amount': '0'})
        n = post['wait'].get((sender, bid), {'bsei_amount': '0', 'stsei_amount': '0'})
        rec_b, rec_s = int(n['bsei_amount']) - int(o['bsei_amount']), int(n['stsei_amount']) - int(o['stsei_amount'])
        changed = [k for k in set(pre['wait']) | set(post['wait']) if pre['wait'].get(k) != post['wait'].get(k)]
        if what == 'key' and any(k != (sender, bid) for k in changed):
            bad.append('other entries changed: %r' % changed)
        if what == 'claim':
            if tok == 'b' and not (0 <= rec_b <= amount):
                bad.append('bSei claim grew by %d for %d sent' % (rec_b, amount))
            if tok == 's' and rec_s != amount:
                bad.append('stSei claim grew by %d for %d sent' % (rec_s, amount))
        if what == 'other_token' and ((tok == 'b' and rec_s != 0) or (tok == 's' and rec_b != 0)):
            bad.append('other token claim changed')
        if what == 'burn':
            burns = [(sm['msg']['wasm']['execute']['contract_addr'], int(sm['msg']['wasm']['execute']['msg']['burn']['amount']))
                     for sm in res['ok']['messages'] if 'wasm' in sm['msg'] and 'burn' in sm['msg']['wasm']['execute']['msg']]
            want = [('bsei_token' if tok == 'b' else 'stsei_token', amount)]
            if burns != want:
                bad.append('burn messages %r, expected %r' % (burns, want))
        cb0, cb1 = pre['items'][b'\x00\x0dcurrent_batch'], post['items'][b'\x00\x0dcurrent_batch']
        if what == 'batch_total' and int(cb1['id']) == bid:
            if int(cb1['requested_bsei_with_fee']) != int(cb0['requested_bsei_with_fee']) + rec_b or int(cb1['requested_stsei']) != int(cb0['requested_stsei']) + rec_s:
                bad.append('open batch total does not grow by the recorded claim')
        if what == 'history_total' and bid in post['hist']:
            hh = post['hist'][bid]
            if int(hh['bsei_amount']) != int(cb0['requested_bsei_with_fee']) + rec_b or int(hh['stsei_amount']) != int(cb0['requested_stsei']) + rec_s:
                bad.append('history total != sum of claims')
        if what == 'nomint' and any('mint' in (sm['msg'].get('wasm', {}).get('execute', {}).get('msg') or {}) for sm in res['ok']['messages']):
            bad.append('an unbond mints tokens')
        if what == 'recorded' and (sender, bid) not in post['wait']:
            bad.append('no claim recorded for the sender in the open batch')
        if what == 'delete' and any(k not in post['wait'] for k in pre['wait']):
            bad.append('a claim was deleted by an unbond')
        new_h = [i for i in post['hist'] if i not in pre['hist']]
        if what == 'history_id' and new_h and (new_h != [bid] or int(post['hist'][bid]['batch_id']) != bid):
            bad.append('history entry stored under %r for open batch %d' % (new_h, bid))
        if what == 'next_batch' and new_h and not (int(cb1['id']) == bid + 1 and int(cb1['requested_bsei_with_fee']) == 0 and int(cb1['requested_stsei']) == 0):
            bad.append('next batch %r does not open empty after batch %d' % (cb1, bid))
        if what == 'unreleased' and new_h and post['hist'][new_h[0]]['released']:
            bad.append('fresh history entry already released')
        return bad
    if key.startswith('withdraw:'):
        who = scn['info']['sender']
        mine0 = {k for k in pre['wait'] if k[0] == who}
        mine1 = {k for k in post['wait'] if k[0] == who}
        rel = {i for i, hh in post['hist'].items() if hh.get('released')}
        for k in sorted(mine0 - mine1):
            if k[1] not in rel:
                bad.append('claim on batch %d deleted although the batch is not released' % k[1])
        if key.endswith('removes_released'):
            for k in sorted(mine0 & mine1):
                if k[1] in rel:
                    bad.append('claim on released batch %d survives the withdrawal' % k[1])
        return bad
    if key.startswith('frame:'):
        changed = [k for k in set(pre['wait']) | set(post['wait']) if pre['wait'].get(k) != post['wait'].get(k)]
        return ['claim list modified: %r' % changed] if changed and 'withdraw_unbonded' not in str(scn['msg']) and 'receive' not in scn['msg'] else \
            (['claims of others touched'] if any(k[0] != scn['info']['sender'] for k in changed) and 'withdraw_unbonded' in str(scn['msg']) else [])
    return None
