# C19  A global index update delivers all staking rewards to the right parties
import z3
from smir.values import *   # noqa
from checks.hubmodel import *     # noqa
from checks.generic import raw_scenario, World
from checks.c10 import DispatcherWorld
from checks.rewardmodel import RW

CRATES = ['basset_sei_hub', 'basset_sei_rewards_dispatcher', 'basset_sei_reward']
BOUNDS = {'quick': {'delegations (validators with pending rewards)': '0..3', 'reward coins at the dispatcher': 'the two reward denominations',
                    'linked transaction': 'hub -> distribution module -> dispatcher (swap at the oracle price) -> keeper / reward contract / hub BondRewards -> reward index update'},
          'thorough': {}}
ASSUMPTIONS = ['E1-E4', 'environment model (DESIGN 3.4): WithdrawDelegatorReward pays an arbitrary pending amount per validator in the staking '
               'denomination to the withdraw address (= dispatcher); the swap contract executes at the oracle price (specified stub); the bank module '
               'rejects a send with a zero coin', 'the sub-messages of one transaction execute in emission order and atomically']
OUTSIDE = ['airdrop hooks (forwarded verbatim to the airdrop registry)', 'wire-level JSON compatibility of UpdateGlobalIndex{airdrop_hooks:None} with the reward '
           'contract\'s UpdateGlobalIndex{} (serde ignores unknown fields; structural check only)']


def ob_hub_update(nd):
    def ob(ctx):
        W = HubWorld(ctx, n_validators=1, n_delegations=nd)
        W.install()
        for hooks in (NONE, some(VecV([JsonV(Agg('OpaqueBinary', (W.iv('hook', 0, 10),)))]))):
            msg = W.msg('UpdateGlobalIndex', airdrop_hooks=hooks)
            for sender in (W.updater, W.registry):
                n = 0
                raw_scenario(W, 'execute', msg, sender, querier=hub_querier_template(W))
                for st, res in W.execute(msg, sender):
                    if not is_ok(res):
                        ctx.infeasible(st, 'UpdateGlobalIndex from the updater / registry executes', 'hub_update:fails', W.mv)
                        continue
                    n += 1
                    e = effects(W, st, res)
                    msgs = e.msgs
                    k0 = 1 if hooks is not NONE else 0
                    wd = msgs[k0:k0 + nd]
                    cl = [(len(msgs) == k0 + nd + 2, 'messages: [airdrop hooks,] one reward withdrawal per delegation, swap, dispatch', 'hub_update:shape')]
                    if len(msgs) == k0 + nd + 2:
                        okw = all(m['kind'] == 'dist_WithdrawDelegatorReward' for m in wd)
                        cl.append((okw, 'rewards are withdrawn from every validator the hub delegates to', 'hub_update:withdraw_all'))
                        if okw:
                            for m, dv in zip(wd, W.del_validators):
                                cl.append((m['fields'][0].id == dv.id, 'withdrawal names the delegation\'s validator', 'hub_update:validator'))
                        sw, dp = msgs[-2], msgs[-1]
                        oksd = (sw['kind'] == 'wasm_execute' and isinstance(sw['msg'], Agg) and sw['msg'].vname == 'SwapToRewardDenom'
                                and dp['kind'] == 'wasm_execute' and isinstance(dp['msg'], Agg) and dp['msg'].vname == 'DispatchRewards')
                        cl.append((oksd, 'then the dispatcher is asked to swap and to dispatch', 'hub_update:swap_dispatch'))
                        if oksd:
                            cl.append((z3.And(sw['contract'].id == W.dispatcher.id, dp['contract'].id == W.dispatcher.id), 'both go to the registered dispatcher', 'hub_update:target'))
                            f = sw['msg']
                            td = W.I.types.lookup('msg::ExecuteMsg', 'basset_sei_rewards_dispatcher')
                            names = [x[0] for x in td.variants[td.variant_index('SwapToRewardDenom')][2]]
                            vals = dict(zip(names, [x.fields[0] for x in f.fields]))
                            cl.append((z3.And(vals['bsei_total_bonded'] == W.Bb, vals['stsei_total_bonded'] == W.Bs), 'the split is requested with the booked pool totals', 'hub_update:totals'))
                    cl += [(len(e.bank) == 0 and not e.delegate_msgs and not e.undelegate_msgs, 'the hub\'s own liquid balance and delegations are not touched', 'hub_update:liquid'),
                           (z3.And(e.post['Bb'] == W.Bb, e.post['Bs'] == W.Bs, e.post['prev_hub_balance'] == W.prev_hub_balance, e.post['rb'] == W.rb_stored,
                                   e.post['rs'] == W.rs_stored, e.post['last_processed'] == W.last_processed, e.post['last_unbonded'] == W.last_unbonded),
                            'only last_index_modification is written', 'hub_update:frame'),
                           (e.post['last_index'] == W.now, 'the update time is recorded', 'hub_update:time'),
                           (z3.And(e.mint_b == 0, e.mint_s == 0, e.burn_b == 0, e.burn_s == 0), 'no token is minted or burnt', 'hub_update:supply')]
                    ctx.require_all(st, cl, W.mv)
                ctx.need_witness('Ok path', n > 0)
        ctx.witness_found('hub UpdateGlobalIndex with %d delegations' % nd)
        ctx.ob.bounds = {'delegations': nd}
    return ob


def ob_bond_rewards(ctx, nv=1):
    W = HubWorld(ctx, n_validators=nv, n_delegations=1)
    W.install()
    I = W.I
    n = 0
    W.amount = W.iv('amount', 0, CAP)
    raw_scenario(W, 'execute', W.msg('BondRewards'), W.dispatcher, [W.mk.coin(W.amount, W.denom)], querier=hub_querier_template(W))
    for st, res in start_op(W, 'bond_rewards', amount=W.amount):
        if not is_ok(res):
            continue
        n += 1
        e = effects(W, st, res)
        cs = W.Ss + W.Qs
        ctx.require_all(st, [
            (e.post['Bs'] == e.sync['Bs'] + W.amount, 'the re-bonded amount is added to the stSei pool', 'bond_rewards:pool'),
            (z3.And(e.mint_b == 0, e.mint_s == 0, e.burn_b == 0, e.burn_s == 0), 'nothing is minted: all token balances untouched', 'bond_rewards:nomint'),
            (e.post['Bb'] == e.sync['Bb'], 'the bSei pool changes only by the slashing recognised in the same call', 'bond_rewards:bsei_pool'),
            (e.post['rb'] == e.sync['rb'], 'the bSei rate changes only by the slashing recognised in the same call', 'bond_rewards:bsei_rate'),
            (z3.Implies(cs > 0, e.post['rs'] == spec_rate(I, st, e.post['Bs'], cs)), 'stSei rate = (pool + re-bonded) / stSei claims', 'bond_rewards:rate'),
            (z3.Implies(z3.And(cs > 0, z3.Or(e.sync['Bs'] >= 1)), e.post['rs'] >= e.sync['rs']), 'the stSei rate does not fall', 'bond_rewards:raise'),
            (e.delegated == W.amount, 'everything received is delegated (liquid balance unchanged)', 'bond_rewards:delegated'),
            (e.post['prev_hub_balance'] == W.prev_hub_balance, 'unbonders\' reserve untouched', 'bond_rewards:reserve')], W.mv)
    ctx.need_witness('BondRewards Ok path', n > 0)
    ctx.witness_found('BondRewards explored')


def ob_linked(ctx):
    """one symbolic transaction: hub UpdateGlobalIndex -> distribution -> dispatcher swap + dispatch -> reward contract index update"""
    nd = 2
    H = HubWorld(ctx, n_validators=1, n_delegations=nd)
    H.st.add(H.Bb + H.Bs >= 1)            # stake is bonded
    H.install()
    msg = H.msg('UpdateGlobalIndex', airdrop_hooks=NONE)
    total_paths = 0
    done = 0
    for st_h, res_h in list(H.execute(msg, H.updater)):
        if not is_ok(res_h):
            continue
        e = effects(H, st_h, res_h)
        if len(e.msgs) != nd + 2:
            raise Gap('linked run: unexpected hub message shape')
        # distribution module: arbitrary pending rewards per validator arrive at the dispatcher (withdraw address)
        D = DispatcherWorld(ctx)
        pend = [D.iv('pending_reward_%d' % i, 0, CAP) for i in range(nd)]
        pre_s = D.iv('dispatcher_pre_stsei_denom', 0, CAP)
        pre_b = D.iv('dispatcher_pre_bsei_denom', 0, CAP)
        D.bal_s = pre_s + sum(pend)
        D.bal_b = pre_b
        D.price = D.iv('price_stsei_in_bsei', 10 ** 6, 10 ** 30)
        D.st.add(D.bal_s <= CAP)
        for c in st_h.pc:
            D.st.add(c)
        D.install()
        sw = e.msgs[-2]['msg']
        swap_msg = D.mk.variant('msg::ExecuteMsg', 'SwapToRewardDenom', crate=D.crate, bsei_total_bonded=U128(H.Bb), stsei_total_bonded=U128(H.Bs))
        for st_s, res_s in list(D.execute(swap_msg, D.hub)):
            if not is_ok(res_s):
                if isinstance(res_s, Panic):
                    continue
                ctx.infeasible(st_s, 'the swap step of the update executes while stake is bonded', 'linked:swap_fails', dict(H.mv, **D.mv))
                continue
            # swap stub at the oracle price
            bal_s2, bal_b2 = D.bal_s, D.bal_b
            for m in D.messages(st_s, res_s):
                coin = m['msg'].fields[0]
                amt = coin.fields[1].fields[0]
                if coin.fields[0].id == D.sdenom.id:
                    bal_s2 = bal_s2 - amt
                    bal_b2 = bal_b2 + D.I.gdiv(st_s, amt * D.price, E)
                else:
                    bal_b2 = bal_b2 - amt
                    bal_s2 = bal_s2 + D.I.gdiv(st_s, amt * D.I.gdiv(st_s, E * E, D.price), E)
            D2 = DispatcherWorld(ctx)
            D2.bal_s, D2.bal_b = bal_s2, bal_b2
            D2.rate = D.rate
            D2.cfg = D.cfg
            D2.entries = list(D.entries)
            for c in st_s.pc:
                D2.st.add(c)
            D2.install()
            dmsg = D2.mk.variant('msg::ExecuteMsg', 'DispatchRewards', crate=D2.crate)
            mv = dict(H.mv)
            mv.update(D.mv)
            for st_d, res_d in list(D2.execute(dmsg, D2.hub)):
                total_paths += 1
                if not is_ok(res_d):
                    ctx.infeasible(st_d, 'the dispatch step executes', 'linked:dispatch_fails', mv)
                    continue
                msgs = D2.messages(st_d, res_d)
                zero = []
                sent_s = sent_b = 0
                to_reward = 0
                rebond = 0
                for m in msgs:
                    coins = m['coins'] if m['kind'] == 'bank_send' else m.get('funds', [])
                    for d_, a_ in coins:
                        if m['kind'] == 'bank_send':
                            zero.append(a_ == 0)
                        if d_.id == D2.sdenom.id:
                            sent_s = sent_s + a_
                        else:
                            sent_b = sent_b + a_
                    if m['kind'] == 'bank_send' and m['to'].id == D2.reward.id:
                        to_reward = to_reward + sum(a_ for _, a_ in m['coins'])
                    if m['kind'] == 'wasm_execute' and isinstance(m['msg'], Agg) and m['msg'].vname == 'BondRewards':
                        rebond = rebond + sum(a_ for _, a_ in m['funds'])
                ctx.require_all(st_d, [
                    (z3.And(sent_s == bal_s2, sent_b == bal_b2), 'no reward coin is left behind in the dispatcher', 'linked:nothing_left'),
                ], mv)
                done += 1
                # reward contract: index update with the delivered amount
                R = RW(ctx)
                delivered = R.iv('delivered_to_reward_contract', 0, CAP)
                R.st.add(delivered == to_reward)
                for c in st_d.pc:
                    R.st.add(c)
                for c in R.invariant():
                    R.st.add(c)
                R.st.add(R.bank == R.prev_reward_balance)      # everything delivered earlier was already indexed
                R.bank = R.prev_reward_balance + delivered
                R.install()
                A0 = R.acc(R.hc) + z3.If(R.distinct(), R.acc(R.ho), 0) + R.R_acc
                rmsg = R.mk.variant('basset::reward::ExecuteMsg', 'UpdateGlobalIndex', crate='basset')
                mv2 = dict(mv)
                mv2.update(R.mv)
                for st_r, res_r in list(R.execute(rmsg, R.dispatcher)):
                    if not is_ok(res_r):
                        ctx.infeasible(st_r, 'the reward contract accepts the index update', 'linked:index_fails', mv2)
                        continue
                    p = R.post(st_r)
                    delta = p['G'] - R.G
                    A2 = R.acc_of_entry(p['c'], p['G']) + z3.If(R.distinct(), R.acc_of_entry(p['o'], p['G']), 0) + R.R_acc + delta * R.R_bal
                    ctx.require(st_r, z3.Implies(R.total_balance > 0, z3.And(A2 - A0 <= delivered * E, delivered * E - (A2 - A0) < R.total_balance)),
                                'bSei holders\' total claimable reward grows by the delivered amount (within < 1 unit of dust)', 'linked:holders_gain', mv2)
                # stSei side: the re-bonded amount enters the hub through BondRewards (obligation bond_rewards)
    ctx.ob.paths += total_paths
    ctx.need_witness('linked paths reached the dispatch step', total_paths > 0)
    ctx.witness_found('linked transaction: %d dispatcher paths, %d complete' % (total_paths, done))


def ob_dispatch_executes(ctx):
    """the dispatch step for arbitrary balances at the dispatcher (whatever the swap left there) and any keeper rate in [0,1]:
    the bank module must accept every transfer, otherwise the whole UpdateGlobalIndex transaction reverts"""
    D = DispatcherWorld(ctx)
    D.install()
    dmsg = D.mk.variant('msg::ExecuteMsg', 'DispatchRewards', crate=D.crate)
    raw_scenario(D, 'execute', dmsg, D.hub, querier=D.querier_template())
    n = 0
    for st, res in D.execute(dmsg, D.hub):
        if not is_ok(res):
            ctx.infeasible(st, 'the dispatch step executes', 'linked:dispatch_fails', D.mv)
            continue
        n += 1
        zero = []
        sent = {'s': 0, 'b': 0}
        for m in D.messages(st, res):
            coins = m['coins'] if m['kind'] == 'bank_send' else m.get('funds', [])
            for d_, a_ in coins:
                tok = 's' if d_.id == D.sdenom.id else 'b'
                sent[tok] = sent[tok] + a_
            if m['kind'] == 'bank_send':
                for d_, a_ in m['coins']:
                    zero.append(a_ >= 1)
        ctx.require(st, z3.And(sent['s'] == D.bal_s, sent['b'] == D.bal_b), 'no reward coin is left behind in the dispatcher: everything it holds is sent on by the dispatch step',
                    'linked:nothing_left_step', D.mv)
        ctx.require(st, z3.And(*zero) if zero else True, 'the update transaction executes: the bank module accepts every transfer of the dispatch step (no zero-coin send)',
                    'linked:zero_coin_revert', D.mv, assume=[D.bal_s + D.bal_b >= 1])
    ctx.need_witness('dispatch Ok path', n > 0)
    ctx.witness_found('dispatch step explored')


OBLIGATIONS = [('dispatch_step_executes', ob_dispatch_executes), ('hub_update_d0', ob_hub_update(0)), ('hub_update_d1', ob_hub_update(1)), ('hub_update_d2', ob_hub_update(2)), ('hub_update_d3', ob_hub_update(3)), ('hub_update_d12', ob_hub_update(12)),
               ('bond_rewards', ob_bond_rewards), ('bond_rewards_v2', lambda ctx: ob_bond_rewards(ctx, 2)), ('linked_update', ob_linked)]


def _reward_step(ctx):
    """the reward contract's side of the update, as a step of its own (world, claims and replay of C14): the recorded balance
    follows the actual one, so that the *next* update credits only what was delivered since"""
    from checks.c14 import step
    return step('UpdateGlobalIndex')(ctx)


OBLIGATIONS.append(('reward_index_update', _reward_step))


def ORACLE(v, scn, out):
    key = v.get('key') or ''
    if key.startswith('UpdateGlobalIndex:'):
        from checks.c14 import ORACLE as O14
        return O14(v, scn, out)
    res = out.get('result', {})
    if key == 'linked:zero_coin_revert':
        if 'ok' not in res:
            return []
        for sm in res['ok']['messages']:
            if 'bank' in sm['msg']:
                for c in sm['msg']['bank']['send']['amount']:
                    if int(c['amount']) == 0:
                        return ['DispatchRewards emits a bank send of 0%s to %s: the bank module rejects it and the whole update reverts' % (c['denom'], sm['msg']['bank']['send']['to_address'])]
        return []
    if key == 'linked:nothing_left_step':
        if 'ok' not in res:
            return []
        bal = {b['denom']: int(b['amount']) for b in scn['querier']['balances']}
        sent = {}
        for sm in res['ok']['messages']:
            m_ = sm['msg']
            coins = m_['bank']['send']['amount'] if 'bank' in m_ else (m_['wasm']['execute']['funds'] if 'wasm' in m_ else [])
            for c in coins:
                sent[c['denom']] = sent.get(c['denom'], 0) + int(c['amount'])
        return ['dispatcher holds %r but sends on %r' % (bal, sent)] if any(sent.get(d_, 0) != bal.get(d_, 0) for d_ in ('usei', 'uusd')) else []
    if key.endswith('fails'):
        return [] if 'ok' in res else ['step failed: ' + str(res)[:200]]
    if key.startswith('hub_update:') or key.startswith('bond_rewards:'):
        if 'ok' not in res:
            return []
        from checks.c01 import decode_hub, atoms
        pre, post = decode_hub(scn['storage']), decode_hub(out.get('storage', []))
        s0, s1 = pre['items'][b'\x00\x05state'], post['items'][b'\x00\x05state']
        msgs = [sm['msg'] for sm in res['ok']['messages']]
        what = key.split(':')[1]
        bad = []
        toks = ('bsei_token', 'stsei_token')
        minted = [m for m in msgs if 'wasm' in m and m['wasm']['execute']['contract_addr'] in toks]
        if key.startswith('hub_update:'):
            hooks = scn['msg']['update_global_index'].get('airdrop_hooks') or []
            dels = scn['querier']['delegations']
            k0 = 1 if hooks else 0 if not hooks else len(hooks)
            k0 = len(hooks)
            wd = msgs[k0:k0 + len(dels)]
            shape = len(msgs) == k0 + len(dels) + 2
            if what == 'shape' and not shape:
                bad.append('%d messages for %d hooks and %d delegations' % (len(msgs), k0, len(dels)))
            if shape:
                okw = all('distribution' in m and 'withdraw_delegator_reward' in m['distribution'] for m in wd)
                if what == 'withdraw_all' and not okw:
                    bad.append('reward withdrawals missing: %r' % wd)
                if what == 'validator' and okw and [m['distribution']['withdraw_delegator_reward']['validator'] for m in wd] != [d['validator'] for d in dels]:
                    bad.append('withdrawals name other validators')
                sw, dp = msgs[-2], msgs[-1]
                oksd = all('wasm' in m for m in (sw, dp)) and 'swap_to_reward_denom' in sw['wasm']['execute']['msg'] and 'dispatch_rewards' in dp['wasm']['execute']['msg']
                if what == 'swap_dispatch' and not oksd:
                    bad.append('swap / dispatch calls missing')
                if oksd:
                    if what == 'target' and not (sw['wasm']['execute']['contract_addr'] == dp['wasm']['execute']['contract_addr'] == 'dispatcher_contract'):
                        bad.append('swap / dispatch not sent to the dispatcher')
                    body = sw['wasm']['execute']['msg']['swap_to_reward_denom']
                    if what == 'totals' and (body['bsei_total_bonded'] != s0['total_bond_bsei_amount'] or body['stsei_total_bonded'] != s0['total_bond_stsei_amount']):
                        bad.append('split requested with %r, booked %s / %s' % (body, s0['total_bond_bsei_amount'], s0['total_bond_stsei_amount']))
            if what == 'liquid' and any('bank' in m or 'staking' in m for m in msgs):
                bad.append('bank / staking message emitted')
            if what == 'frame':
                ch = [k for k in s0 if s0[k] != s1.get(k) and k != 'last_index_modification']
                others = [k for k in set(pre['items']) | set(post['items']) if k != b'\x00\x05state' and pre['items'].get(k) != post['items'].get(k)]
                if ch or others or pre['hist'] != post['hist'] or pre['wait'] != post['wait']:
                    bad.append('state changed beyond last_index_modification: %r %r' % (ch, others))
            if what == 'time' and int(s1['last_index_modification']) != int(scn['env']['time']):
                bad.append('update time not recorded')
            if what == 'supply' and minted:
                bad.append('token message emitted')
            return bad
        amt = int(scn['info']['funds'][0]['amount']) if scn['info']['funds'] else 0
        Bs0, Bs1, Bb0, Bb1 = (int(s0['total_bond_stsei_amount']), int(s1['total_bond_stsei_amount']), int(s0['total_bond_bsei_amount']), int(s1['total_bond_bsei_amount']))
        D = sum(int(d['amount']) for d in scn['querier']['delegations'])
        slashed = D < Bb0 + Bs0
        deleg = sum(int(m['staking']['delegate']['amount']['amount']) for m in msgs if 'staking' in m and 'delegate' in m['staking'])
        if what == 'nomint' and minted:
            bad.append('token message emitted by BondRewards')
        if what == 'delegated' and deleg != amt:
            bad.append('delegated %d of %d received' % (deleg, amt))
        if what == 'reserve' and s1['prev_hub_balance'] != s0['prev_hub_balance']:
            bad.append('prev_hub_balance changed')
        if not slashed:
            if what == 'pool' and Bs1 != Bs0 + amt:
                bad.append('stSei pool %d -> %d for %d re-bonded' % (Bs0, Bs1, amt))
            if what in ('bsei_pool', 'bsei_rate') and (Bb1 != Bb0 or (what == 'bsei_rate' and False)):
                bad.append('bSei pool changed %d -> %d' % (Bb0, Bb1))
            cs = int(scn['querier']['supplies'][1]['supply']) + int(pre['items'][b'\x00\x0dcurrent_batch']['requested_stsei'])
            if what == 'rate' and cs > 0 and atoms(s1['stsei_exchange_rate']) != (Bs1 * E // cs if Bs1 else E):
                bad.append('stSei rate %s != pool/claims' % s1['stsei_exchange_rate'])
            if what == 'raise' and cs > 0 and Bs0 >= 1 and Bs1 * E // cs < Bs0 * E // cs:
                bad.append('stSei rate fell')
        return bad
    return None
