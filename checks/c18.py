# C18  Both tokens conserve supply; only the hub mints and burns
import z3
from smir.values import *   # noqa
from checks.generic import *   # noqa
from checks.tokens import TokenWorld
from checks.c10 import MSG_TY

CRATES = ['basset_sei_token_bsei', 'basset_sei_token_stsei']
BOUNDS = {'quick': {'initial balances': '0..3 entries (addresses may alias)', 'ledger': 'lazily initialised symbolic accounts/allowances: every account a message touches, aliasing allowed'},
          'thorough': {'initial balances': '0..4'}}
ASSUMPTIONS = ['A-ADDR', 'token name/symbol syntax checks return an arbitrary verdict (string bytes are not modelled)',
               'conservation is decided as: change of the sum over all touched balance entries = change of total_supply (untouched accounts cannot change)']
OUTSIDE = ['logo / marketing data', 'enumeration queries']
VARIANTS = ['Transfer', 'Burn', 'Send', 'Mint', 'IncreaseAllowance', 'DecreaseAllowance', 'TransferFrom', 'BurnFrom', 'SendFrom']


def init_msg(W, which, n):
    I = W.I
    coins = []
    for i in range(n):
        a = StrV(z3.Int('init_addr%d' % i))
        W.mv['init_addr%d' % i] = a.id
        coins.append(W.mk.struct('Cw20Coin', 'cw20', address=a, amount=U128(W.iv('init_amt%d' % i, 0, CAP))))
    if which == 'bsei':
        return W.mk.struct('msg::TokenInitMsg', 'basset_sei_token_bsei', name=I.S('bsei'), symbol=I.S('BSEI'), decimals=6,
                           initial_balances=VecV(coins), hub_contract=I.S('hub_contract'))
    return W.mk.struct('msg::TokenInitMsg', 'basset_sei_token_stsei', name=I.S('stsei'), symbol=I.S('STSEI'), decimals=6,
                       initial_balances=VecV(coins), hub_contract=I.S('hub_contract'),
                       marketing=some(W.mk.struct('InstantiateMarketingInfo', 'cw20_base', project=NONE, description=NONE,
                                                  marketing=some(I.S('marketing_addr')), logo=NONE)))


def ob_instantiate(which, n):
    def ob(ctx):
        W = World(ctx, which)
        W.closed = [('M', b'balance')]
        W.install()
        msg = init_msg(W, which, n)
        snd = W.sv('sender')
        raw_scenario(W, 'instantiate', msg, snd)
        nok = 0
        ti_key = b'\x00\ntoken_info' if which == 'bsei' else b'token_info'
        for st, res in W.instantiate(msg, snd):
            if not is_ok(res):
                continue
            nok += 1
            ti = W.get_item(st, ti_key)
            supply = ti.fields[3].fields[0]
            total = 0
            for e in W.map_entries(st, 'balance'):
                if e.present is True:
                    total = total + e.val.fields[0]
            mint = ti.fields[4]
            cl = [(total == supply, 'sum of all account balances = total supply after instantiate', '%s:instantiate:sum' % which)]
            ctx.require_all(st, cl, W.mv)
            if n >= 2:
                ctx.witness('%s instantiate with a repeated address' % which, st, [W.mv['init_addr0'] == W.mv['init_addr1']], W.mv)
            ctx.witness('%s instantiate Ok' % which, st, True, W.mv, expect='ok')
        if n == 0:
            ctx.need_witness('instantiate Ok path', nok > 0)
        ctx.ob.bounds = {'initial balances': n}
    return ob


def ob_execute(which, variant):
    def ob(ctx):
        ty, crate = MSG_TY[which]
        W = TokenWorld(ctx, which)
        W.install()
        I = W.I
        S = I.summ
        msg = sym_msg(W, ty, variant, crate)
        sender = W.sv('sender')
        raw_scenario(W, 'execute', msg, sender, querier=W.querier_template())
        nok = 0
        for st, res in W.execute(msg, sender):
            if not is_ok(res):
                continue
            nok += 1
            ch = W.balance_changes(st)
            dsum = sum((v1 - v0) for _, v0, v1 in ch) if ch else 0
            supply2 = W.supply_after(st)
            cl = [(dsum == supply2 - W.supply, 'sum of balances changes exactly as total supply does', '%s:%s:conserve' % (which, variant))]
            amt = None
            for fname in ('amount',):
                try:
                    amt = W.mk.vfield(msg, ty, fname, crate).fields[0]
                except Exception:   # noqa
                    amt = None
            if variant in ('Transfer', 'Send', 'TransferFrom', 'SendFrom', 'IncreaseAllowance', 'DecreaseAllowance'):
                cl.append((supply2 == W.supply, 'supply unchanged', '%s:%s:supply' % (which, variant)))
            if variant == 'Mint':
                cl += [(sender.id == W.hub.id, 'only the hub mints', '%s:Mint:minter' % which), (supply2 == W.supply + amt, 'mint raises supply by the amount', '%s:Mint:supply' % which)]
            if variant == 'Burn':
                cl += [(sender.id == W.hub.id, 'only the hub burns via Burn', '%s:Burn:burner' % which), (supply2 == W.supply - amt, 'burn lowers supply by the amount', '%s:Burn:supply' % which)]
                for key, v0, v1 in ch:
                    cl.append((z3.Or(key[0][1] == sender.id, v1 == v0), 'Burn only touches the burner\'s own balance', '%s:Burn:own' % which))
            if variant == 'BurnFrom':
                cl.append((supply2 == W.supply - amt, 'burn lowers supply by the amount', '%s:BurnFrom:supply' % which))
            if variant in ('TransferFrom', 'SendFrom', 'BurnFrom'):
                owner = W.mk.vfield(msg, ty, 'owner', crate)
                al = W.family_changes(st, ('M', b'allowance'), lambda v: v.fields[0].fields[0])
                # the allowance entry (owner, spender): initial grant and expiry from the lazily created entry
                grant0 = 0
                found = False
                for ev in st.log:
                    if ev[0] == 'lazy' and ev[2] == ('M', b'allowance'):
                        e0 = ev[5]
                        found = True
                        a0 = e0.val.fields[0].fields[0]
                        exp = e0.val.fields[1]
                        expired = expired_cond(W, exp)
                        cl += [(e0.present, 'allowance-based operation needs a granted allowance', '%s:%s:granted' % (which, variant)),
                               (z3.Not(expired), 'an expired allowance cannot be used', '%s:%s:expired' % (which, variant)),
                               (amt <= a0, 'never moves or burns more than the allowance', '%s:%s:limit' % (which, variant)),
                               (z3.And(ev[3][0][1] == owner.id, ev[3][1][1] == sender.id), 'the allowance used is the one the owner granted to the spender', '%s:%s:pair' % (which, variant))]
                for key, v0, v1 in al:
                    cl.append((v1 == v0 - amt, 'allowance is reduced by the amount', '%s:%s:deduct' % (which, variant)))
                # a spend leaves the expiry of what remains as the owner granted it (otherwise the rest outlives its expiry)
                for ev in st.log:
                    if ev[0] == 'write' and ev[2] == ('M', b'allowance') and ev[4] is not None and ev[5] is not None and hasattr(ev[5], 'val') and ev[5].val is not None:
                        cl.append((S.struct_eq(st, ev[5].val.fields[1], ev[4].val.fields[1]), 'the remaining allowance keeps the expiry the owner granted', '%s:%s:expiry_kept' % (which, variant)))
                cl.append((found, 'an allowance entry is consulted', '%s:%s:consulted' % (which, variant)))
            msgs = W.messages(st, res)
            if (which == 'stsei' and variant in ('Burn', 'BurnFrom')) or (which == 'bsei' and variant == 'BurnFrom'):
                has = any(m['kind'] == 'wasm_execute' and isinstance(m['msg'], Agg) and m['msg'].vname == 'CheckSlashing' and m['contract'].id == W.hub.id for m in msgs)
                cl.append((has, 'burn makes the hub refresh its exchange rates (CheckSlashing) in the same transaction', '%s:%s:check_slashing' % (which, variant)))
            ctx.require_all(st, cl, W.mv)
            ctx.witness('%s %s Ok' % (which, variant), st, True, W.mv, expect='ok')
        ctx.need_witness('Ok path of %s %s' % (which, variant), nok > 0)
        ctx.expect_witness('%s %s reachable (solver)' % (which, variant), '%s %s Ok' % (which, variant))
    return ob


def expired_cond(W, exp):
    """condition under which an Expiration value (possibly symbolic enum) is expired at the world's block."""
    if isinstance(exp, SymEnum):
        conds = []
        for i, alt in enumerate(exp.alts):
            c = expired_cond(W, alt)
            conds.append(z3.And(exp.tag == i, c if not isinstance(c, bool) else z3.BoolVal(c)))
        return z3.Or(*conds)
    if exp.vname == 'AtHeight':
        return W.height >= exp.fields[0]
    if exp.vname == 'AtTime':
        t = exp.fields[0]
        t = t.fields[0] if isinstance(t, Agg) else t
        return W.now >= t
    return False


OBLIGATIONS = []
for _w in ('bsei', 'stsei'):
    for _n in (0, 1, 2, 3, 4):
        OBLIGATIONS.append(('%s_instantiate_n%d' % (_w, _n), ob_instantiate(_w, _n)))
    for _v in VARIANTS:
        OBLIGATIONS.append(('%s_%s' % (_w, _v), ob_execute(_w, _v)))


def tier_filter(name, tier):
    return tier == 'thorough' or not name.endswith('_n4')


def ORACLE(v, scn, out):
    import base64, json as js
    from smir import rawstore
    key = v.get('key') or ''
    res = out.get('result', {})
    if 'ok' not in res:
        return []
    which, variant, what = key.split(':')
    pre = {base64.b64decode(k): js.loads(base64.b64decode(val)) for k, val in scn.get('storage', [])}
    post = {base64.b64decode(k): js.loads(base64.b64decode(val)) for k, val in out.get('storage', [])}
    tik = b'\x00\ntoken_info' if which == 'bsei' else b'token_info'
    balp = rawstore.lp(b'balance')

    def bals(d):
        return {k[len(balp):]: int(val) for k, val in d.items() if k.startswith(balp)}
    b0, b1 = bals(pre), bals(post)
    s0 = int(pre[tik]['total_supply']) if tik in pre else 0
    s1 = int(post[tik]['total_supply'])
    bad = []
    if what == 'sum':
        if sum(b1.values()) != s1:
            bad.append('sum of balances %d != total supply %d' % (sum(b1.values()), s1))
    elif what == 'conserve':
        d = sum(b1.values()) - sum(b0.values())
        if d != s1 - s0:
            bad.append('balances changed by %d, supply by %d' % (d, s1 - s0))
    elif what == 'supply':
        body = list(scn['msg'].values())[0]
        exp = {'Mint': s0 + int(body['amount']), 'Burn': s0 - int(body['amount']), 'BurnFrom': s0 - int(body['amount'])}.get(variant, s0)
        if s1 != exp:
            bad.append('supply %d -> %d, expected %d' % (s0, s1, exp))
    elif what in ('minter', 'burner'):
        if scn['info']['sender'] != 'hub_contract':
            bad.append('%s accepted from %s' % (variant, scn['info']['sender']))
    elif what == 'check_slashing':
        has = any('wasm' in sm['msg'] and sm['msg']['wasm']['execute']['contract_addr'] == 'hub_contract' and
                  (sm['msg']['wasm']['execute']['msg'] == {'check_slashing': {}}) for sm in res['ok']['messages'])
        if not has:
            bad.append('no CheckSlashing message to the hub')
    elif what in ('granted', 'limit', 'expired', 'deduct', 'pair', 'consulted', 'expiry_kept'):
        alp = rawstore.lp(b'allowance')
        body = list(scn['msg'].values())[0]
        enc = (lambda a: rawstore.canonical(a)) if which == 'bsei' else (lambda a: a.encode())
        k = alp + rawstore.lp(enc(body['owner'])) + enc(scn['info']['sender'])
        a0 = pre.get(k)
        amt = int(body['amount'])
        if a0 is None:
            bad.append('operation accepted without an allowance')
        else:
            if amt > int(a0['allowance']):
                bad.append('moved %d with allowance %s' % (amt, a0['allowance']))
            ex = a0.get('expires', {})
            if 'at_height' in ex and int(scn['env']['height']) >= int(ex['at_height']):
                bad.append('expired allowance used')
            if 'at_time' in ex and int(scn['env']['time']) * 10 ** 9 >= int(ex['at_time']):
                bad.append('expired allowance used')
            a1 = post.get(k)
            if a1 is not None and int(a1['allowance']) != int(a0['allowance']) - amt:
                bad.append('allowance not reduced by the amount')
            if what == 'expiry_kept' and a1 is not None and a1.get('expires') != a0.get('expires'):
                bad.append('expiry of the remaining allowance changed from %r to %r' % (a0.get('expires'), a1.get('expires')))
    elif what == 'own':
        for k in set(b0) | set(b1):
            if b0.get(k, 0) != b1.get(k, 0) and k != (rawstore.canonical(scn['info']['sender']) if which == 'bsei' else scn['info']['sender'].encode()):
                bad.append('another account changed')
    else:
        return None
    return bad
