# C15  Reward accrual is proportional to holdings and independent of others' actions
import z3
from smir.values import *   # noqa
from checks.generic import *   # noqa
from checks.rewardmodel import RW, holder_writes
from checks.hubmodel import sdiv

CRATES = ['basset_sei_reward']
BOUNDS = {'quick': {'explicit holders': '2 (may alias) + aggregated remainder', 'paired executions': '2 operations on distinct holders, both orders'},
          'thorough': {}}
ASSUMPTIONS = ['E1 (as C14), INV-RW in the pre-state', 'accrued reward of a holder = (global index - holder index) x balance + pending, in atomics (1e-18)']
OUTSIDE = ['histories longer than one step are covered by induction on the per-step equalities; paired executions of more than 2 operations']
MSG = 'basset::reward::ExecuteMsg'


def setup(ctx):
    W = RW(ctx)
    W.install()
    for c in W.invariant():
        W.st.add(c)
    return W


def target_msg(W, variant, who, amount):
    return W.mk.variant(MSG, variant, crate='basset', address=who, amount=U128(amount))


def step(variant):
    def ob(ctx):
        W = setup(ctx)
        I = W.I
        S = I.summ
        amount = W.iv('amount', 0, CAP)
        if variant in ('IncreaseBalance', 'DecreaseBalance'):
            msg = target_msg(W, variant, W.addr_c, amount)
            sender = W.bsei_token
        elif variant == 'ClaimRewards':
            msg = W.mk.variant(MSG, variant, crate='basset', recipient=NONE)
            sender = W.addr_c
        else:
            msg = W.mk.variant(MSG, variant, crate='basset')
            sender = W.dispatcher
        raw_scenario(W, 'execute', msg, sender, querier=W.querier_template())
        nok = 0
        for st, res in W.execute(msg, sender):
            if not is_ok(res):
                continue
            nok += 1
            p = W.post(st)
            d = W.distinct()
            cl = []
            # (a) frame: only the addressed holder's entry is written; the other holder keeps balance, index, pending
            for ev in holder_writes(st):
                cl.append((z3.And(*[a[1] == b for a, b in zip(ev[3], [W.addr_c.id])]) if variant != 'UpdateGlobalIndex' else False,
                           'only the addressed holder\'s entry is written', '%s:frame_writes' % variant))
            eo = p['o']
            same_o = z3.And(W.bal_of_entry(eo) == W.bal(W.ho), W.acc_of_entry(eo, W.G) == W.acc(W.ho))
            cl.append((z3.Implies(d, same_o), 'another holder\'s balance and accrued reward are untouched', '%s:frame_other' % variant))
            if variant != 'UpdateGlobalIndex':
                cl.append((p['G'] == W.G, 'global index unchanged by holder operations', '%s:frame_index' % variant))
            acc_c0 = W.acc(W.hc)
            acc_c1 = W.acc_of_entry(p['c'], p['G'])
            if variant in ('IncreaseBalance', 'DecreaseBalance'):
                cl.append((acc_c1 == acc_c0, 'balance changes settle first: rewards already accrued stay with the holder, new tokens earn nothing from past updates', '%s:settle' % variant))
                want = W.bal(W.hc) + amount if variant == 'IncreaseBalance' else W.bal(W.hc) - amount
                cl.append((W.bal_of_entry(p['c']) == want, 'balance changes by exactly the amount', '%s:balance' % variant))
            if variant == 'ClaimRewards':
                paid = 0
                for m_ in W.messages(st, res):
                    if m_['kind'] == 'bank_send':
                        paid = paid + sum(a_ for _, a_ in m_['coins'])
                cl.append((z3.And(acc_c1 == acc_c0 - paid * E, acc_c1 >= 0, acc_c1 < E),
                           'a claim takes exactly what it pays out of the claimant\'s own accrued reward (the whole units; the fraction stays), so nothing can be claimed twice', 'ClaimRewards:own'))
            if variant == 'UpdateGlobalIndex':
                delta = p['G'] - W.G
                claimed = W.bank - W.prev_reward_balance
                cl += [(z3.Implies(W.total_balance > 0, delta == sdiv(I, st, claimed * E, W.total_balance)),
                        'every holder accrues balance x (delivered / total balance), the same per-token amount for all', 'UpdateGlobalIndex:delta'),
                       (z3.And(acc_c1 - acc_c0 == W.bal(W.hc) * delta, z3.Implies(d, W.acc_of_entry(eo, p['G']) - W.acc(W.ho) == W.bal(W.ho) * delta)),
                        'accrual is exactly proportional to the balance (no per-account rounding): splitting an account changes nothing', 'UpdateGlobalIndex:proportional')]
            ctx.require_all(st, cl, W.mv)
            ctx.witness('%s with distinct present holders' % variant, st, [d, W.hc['present'], W.ho['present'], W.ho['balance'] > 0], W.mv)
        ctx.need_witness('Ok path of ' + variant, nok > 0)
        ctx.expect_witness('distinct holders region (%s)' % variant, 'distinct present holders')
    return ob


def run_seq(W, st0, ops):
    """all-Ok paths of a sequence of (msg, sender) from st0; yields (state, [responses])"""
    def rec(st, i, acc):
        if i == len(ops):
            yield st, acc
            return
        msg, sender = ops[i]
        W.st = st
        outs = list(W.execute(msg, sender))
        for st2, res in outs:
            if is_ok(res):
                yield from rec(st2, i + 1, acc + [res])
    yield from rec(st0, 0, [])


def final_tuple(W, st):
    p = W.post(st)
    return [p['G'], p['T'], p['P'], W.bal_of_entry(p['c']), W.acc_of_entry(p['c'], p['G']), W.bal_of_entry(p['o']), W.acc_of_entry(p['o'], p['G'])]


def payouts(W, st, ress):
    out = []
    for r in ress:
        t = 0
        for m in W.messages(st, r):
            if m['kind'] == 'bank_send':
                for d_, a_ in m['coins']:
                    t = t + a_
        out.append(t)
    return out


def commute(name, mk_ops):
    def ob(ctx):
        W = setup(ctx)
        W.st.add(W.distinct())
        root = W.st
        a1, a2 = W.iv('amount1', 0, CAP), W.iv('amount2', 0, CAP)
        opA, opB = mk_ops(W, a1, a2)

        def steps(T):
            return [{'entry': 'execute', 'info': {'sender': T.string(snd), 'funds': []}, 'msg': T.value(m_)} for m_, snd in (opA, opB)]
        W.st = root
        raw_scenario(W, 'execute', None, None, querier=W.querier_template(), steps=steps)
        ab = list(run_seq(W, root.clone(), [opA, opB]))
        ba = list(run_seq(W, root.clone(), [opB, opA]))
        ctx.ob.paths += len(ab) + len(ba)
        n = 0
        for stA, rA in ab:
            fa = final_tuple(W, stA)
            pa = payouts(W, stA, rA)
            for stB, rB in ba:
                fb = final_tuple(W, stB)
                pb = payouts(W, stB, rB)
                eq = z3.And(*[x == y for x, y in zip(fa, fb)] + [pa[0] == pb[1], pa[1] == pb[0]])
                ctx.require(stA, eq, 'independent operations of two holders commute: same final state and payouts in either order',
                            'commute:%s' % name, W.mv, assume=[c for c in stB.pc if c is not True])
                n += 1
        # an operation that succeeds in one order succeeds in the other
        ctx.need_witness('both orders have Ok paths (%s)' % name, len(ab) > 0 and len(ba) > 0)
        ctx.witness_found('paired execution %s: %d x %d paths' % (name, len(ab), len(ba)))
    return ob


def ops_inc_dec(W, a1, a2):
    return (target_msg(W, 'IncreaseBalance', W.addr_c, a1), W.bsei_token), (target_msg(W, 'DecreaseBalance', W.addr_o, a2), W.bsei_token)


def ops_claim_inc(W, a1, a2):
    return (W.mk.variant(MSG, 'ClaimRewards', crate='basset', recipient=NONE), W.addr_c), (target_msg(W, 'IncreaseBalance', W.addr_o, a2), W.bsei_token)


def ops_claim_claim(W, a1, a2):
    return (W.mk.variant(MSG, 'ClaimRewards', crate='basset', recipient=NONE), W.addr_c), (W.mk.variant(MSG, 'ClaimRewards', crate='basset', recipient=NONE), W.addr_o)


def replay_commute(v, run_scenario):
    """both orders on the real contract from the model's state: final storage and the payout of each operation must agree"""
    from smir import tojson
    import copy
    tojson.set_string_names({int(k): s_ for k, s_ in v.get('strings', {}).items()})
    scn = tojson.instantiate(v['scenario_t'], v['model'])
    out_ab = run_scenario(scn)
    scn2 = copy.deepcopy(scn)
    scn2['steps'] = list(reversed(scn2['steps']))
    out_ba = run_scenario(scn2)
    if 'error' in out_ab or 'error' in out_ba:
        return {'status': 'unavailable', 'detail': str(out_ab.get('error') or out_ba.get('error'))}
    ra, rb = out_ab['results'], out_ba['results']
    if not all('ok' in r for r in ra + rb):
        return {'status': 'mismatch', 'scenario': scn, 'output': {'ab': out_ab, 'ba': out_ba}, 'oracle': [],
                'detail': 'an operation fails in one of the orders on the real code (the claim is about pairs that succeed)'}

    def pay(r):
        return sorted(str(sm['msg']) for sm in r['ok']['messages'])
    bad = []
    if sorted(map(tuple, out_ab['storage'])) != sorted(map(tuple, out_ba['storage'])):
        bad.append('final storage differs between the two orders')
    if pay(ra[0]) != pay(rb[1]) or pay(ra[1]) != pay(rb[0]):
        bad.append('messages (payouts) of an operation depend on the order: %r / %r' % ([pay(x) for x in ra], [pay(x) for x in rb]))
    return {'status': 'reproduced' if bad else 'mismatch', 'scenario': scn, 'output': {'ab': out_ab, 'ba': out_ba}, 'oracle': bad,
            'detail': '' if bad else 'real code satisfies the claim on the model input'}


REPLAY = {'commute_increase_decrease': replay_commute, 'commute_claim_increase': replay_commute, 'commute_claim_claim': replay_commute}
OBLIGATIONS = [(v, step(v)) for v in ('UpdateGlobalIndex', 'IncreaseBalance', 'DecreaseBalance', 'ClaimRewards')] + \
    [('commute_increase_decrease', commute('inc_dec', ops_inc_dec)), ('commute_claim_increase', commute('claim_inc', ops_claim_inc)),
     ('commute_claim_claim', commute('claim_claim', ops_claim_claim))]


def ORACLE(v, scn, out):
    import base64, json as js
    from decimal import Decimal as D
    from smir import rawstore
    key = v.get('key') or ''
    res = out.get('result', {})
    if 'ok' not in res or key.startswith('commute'):
        return None if key.startswith('commute') else []

    def dec(s):
        return int(D(s) * 10 ** 18)

    def state_of(pairs):
        return {base64.b64decode(k): js.loads(base64.b64decode(val)) for k, val in pairs}
    pre, post = state_of(scn['storage']), state_of(out.get('storage', []))
    G0, G1 = dec(pre[b'\x00\x05state']['global_index']), dec(post[b'\x00\x05state']['global_index'])
    kc = rawstore.lp(b'holders') + rawstore.canonical('holder_c')
    what = key.split(':')[1]

    def acc(h, G):
        return ((G - dec(h['index'])) * int(h['balance']) + dec(h['pending_rewards'])) if h else 0
    bad = []
    others0 = {k: h for k, h in pre.items() if k.startswith(rawstore.lp(b'holders')) and k != kc}
    others1 = {k: h for k, h in post.items() if k.startswith(rawstore.lp(b'holders')) and k != kc}
    if what in ('frame_writes', 'frame_other'):
        for k in set(others0) | set(others1):
            h0, h1 = others0.get(k), others1.get(k)
            if (int(h0['balance']) if h0 else 0) != (int(h1['balance']) if h1 else 0) or acc(h0, G0) != acc(h1, G0):
                bad.append('another holder was modified')
    elif what == 'frame_index':
        if G0 != G1:
            bad.append('global index changed')
    elif what == 'settle':
        if acc(pre.get(kc), G0) != acc(post.get(kc), G1):
            bad.append('accrued reward of the holder changed from %d to %d atomics' % (acc(pre.get(kc), G0), acc(post.get(kc), G1)))
    elif what == 'fails':
        return []
    elif what == 'own':
        paid = 0
        for sm in res['ok']['messages']:
            if 'bank' in sm['msg']:
                paid += sum(int(c['amount']) for c in sm['msg']['bank']['send']['amount'])
        kc2 = rawstore.lp(b'holders') + rawstore.canonical(scn['info']['sender'])
        a0, a1 = acc(pre.get(kc2), G0), acc(post.get(kc2), G1)
        if a1 != a0 - paid * E or not (0 <= a1 < E):
            bad.append('claimant accrued %d atomics, paid %d units, still accrued %d atomics afterwards' % (a0, paid, a1))
    elif what == 'balance':
        body = list(scn['msg'].values())[0]
        b0 = int(pre[kc]['balance']) if kc in pre else 0
        b1 = int(post[kc]['balance']) if kc in post else 0
        want = b0 + int(body['amount']) if 'increase_balance' in scn['msg'] else b0 - int(body['amount'])
        if b1 != want:
            bad.append('balance %d -> %d, expected %d' % (b0, b1, want))
    elif what == 'delta':
        T = int(pre[b'\x00\x05state']['total_balance'])
        claimed = int(scn['querier']['balances'][0]['amount']) - int(pre[b'\x00\x05state']['prev_reward_balance'])
        if T > 0 and G1 - G0 != claimed * E // T:
            bad.append('index grew by %d, delivered/total = %d' % (G1 - G0, claimed * E // T))
    elif what == 'proportional':
        for k in set(pre) & set(post):
            if k.startswith(rawstore.lp(b'holders')):
                if acc(post[k], G1) - acc(pre[k], G0) != int(pre[k]['balance']) * (G1 - G0):
                    bad.append('holder accrual not proportional')
    else:
        return None
    return bad

from checks import migrate as _migrate
_migrate.attach(globals(), 'reward')
