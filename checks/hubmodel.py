# Shared symbolic model of the hub contract's state and environment.
import z3
from smir.values import *   # noqa
from smir.interp import State
from smir.env import Store, Entry, Querier, lp
from smir.symval import Mk, fresh_value

HUB = 'basset_sei_hub'
E = E18
CAP = 10 ** 18          # operating envelope E1


class HubQuerier(Querier):
    """chain-side facts: delegations of the hub, token supplies, registry answer, bank balance."""

    def __init__(self, W):
        self.W = W

    def bank_balance(self, I, st, addr, denom):
        W = self.W
        yield st, W.hub_balance

    def all_delegations(self, I, st, delegator):
        yield st, list(self.W.delegations)

    def smart(self, I, st, addr, msg, target_ty, crate):
        W = self.W
        S = I.summ
        # dispatch on the message (typed value) -- the address is checked by the caller-side obligations
        if isinstance(msg, Agg) and msg.ty == 'Cw20QueryMsg' and msg.vname == 'TokenInfo':
            for st2, is_b in I.truth(st, S.struct_eq(st, addr, W.bsei_token)):
                if is_b:
                    yield st2, ok(W.token_info(W.Sb))
                else:
                    for st3, is_s in I.truth(st2, S.struct_eq(st2, addr, W.stsei_token)):
                        if is_s:
                            yield st3, ok(W.token_info(W.Ss))
                        else:
                            yield st3, err(stderr(I.S('no such contract')))
            return
        if isinstance(msg, Agg) and msg.ty == 'QueryMsg' and msg.vname == 'GetValidatorsForDelegation':
            yield st, ok(VecV(W.validators))
            return
        if isinstance(msg, Agg) and msg.ty == 'Cw20QueryMsg' and msg.vname == 'Balance':
            yield st, ok(Agg('BalanceResponse', (U128(W.airdrop_balance),)))
            return
        raise Gap('hub querier: unexpected smart query %r' % (msg,))


class HubWorld:
    """one symbolic pre-state of the hub + environment."""

    def __init__(self, ctx, n_validators=1, n_delegations=1, envelope=True, feas_ms=1500, fixed=None):
        self.ctx = ctx
        self.fixed = dict(fixed or {})       # world variables given a concrete value (plain shapes of many-entry obligations)
        I = self.I = ctx.interp(feas_ms)
        self.mk = Mk(I)
        st = self.st = State()
        st.contract = HUB
        st.querier = HubQuerier(self)
        self.mv = {}
        iv = self.iv
        # addresses
        self.hub_addr = I.S('hub_contract')
        self.owner = I.S('owner_addr')
        self.bsei_token = I.S('bsei_token')
        self.stsei_token = I.S('stsei_token')
        self.dispatcher = I.S('dispatcher_contract')
        self.registry = I.S('registry_contract')
        self.rewards = I.S('reward_contract')
        self.airdrop = I.S('airdrop_registry')
        self.updater = I.S('index_updater')
        self.denom = I.S('usei')
        self.reward_denom = I.S('uusd')
        # state
        self.Bb = iv('B_bsei', 0, CAP)
        self.Bs = iv('B_stsei', 0, CAP)
        self.Sb = iv('S_bsei', 0, CAP)
        self.Ss = iv('S_stsei', 0, CAP)
        self.Qb = iv('Q_bsei', 0, CAP)
        self.Qs = iv('Q_stsei', 0, CAP)
        self.rb_stored = iv('rate_bsei_stored', 1, U128_MAX)
        self.rs_stored = iv('rate_stsei_stored', 1, U128_MAX)
        self.prev_hub_balance = iv('prev_hub_balance', 0, CAP)
        self.hub_balance = iv('hub_balance', 0, CAP)
        self.now = iv('now', 0, U64_MAX)
        self.last_unbonded = iv('last_unbonded_time', 0, U64_MAX)
        self.last_index = iv('last_index_modification', 0, U64_MAX)
        self.last_processed = iv('last_processed_batch', 0, 2 ** 32)
        self.batch_id = iv('current_batch_id', 1, 2 ** 32)
        self.epoch = iv('epoch_period', 0, U64_MAX)
        self.unbonding = iv('unbonding_period', 0, U64_MAX)
        self.fee = iv('peg_recovery_fee', 0, E)
        self.threshold = iv('er_threshold', 0, E)
        self.paused = False
        self.airdrop_balance = iv('airdrop_balance', 0, CAP)
        if envelope:
            st.add(self.Bb + self.Bs <= CAP)
            st.add(self.Sb + self.Qb <= CAP)
            st.add(self.Ss + self.Qs <= CAP)
            st.add(self.last_unbonded <= self.now)
            st.add(self.last_index <= self.now)
            st.add(self.last_processed < self.batch_id)
        # chain facts
        self.del_amounts = [iv('deleg_%d' % i, 0, CAP) for i in range(n_delegations)]
        self.del_validators = [I.S('dval%d' % i) for i in range(n_delegations)]
        self.D = sum(self.del_amounts) if self.del_amounts else 0
        if envelope and n_delegations:
            st.add(self.D <= CAP)
        self.delegations = [self.mk.struct('Delegation', 'cosmwasm_std', delegator=self.mk.addr(self.hub_addr),
                                           validator=self.del_validators[i],
                                           amount=self.mk.coin(self.del_amounts[i], self.denom))
                            for i in range(n_delegations)]
        self.val_amounts = [iv('regval_%d' % i, 0, CAP) for i in range(n_validators)]
        self.val_names = [I.S('rval%d' % i) for i in range(n_validators)]
        self.validators = [Agg('ValidatorResponse', (U128(self.val_amounts[i]), self.val_names[i]))
                           for i in range(n_validators)]
        self.histories = []
        self.waits = []
        self.closed = [('P', b'history_map'), ('B', b'v2_wait'), ('B', b'wait')]
        self.contract = 'hub'
        self.crate = HUB
        self.self_addr = self.hub_addr
        self.height = 12345

    def iv(self, name, lo, hi):
        if name in getattr(self, 'fixed', {}):
            v = self.fixed[name]
            if not (lo <= v <= hi):
                raise ValueError('fixed value of %s outside its range' % name)
            self.mv[name] = v
            return v
        v = z3.Int(name)
        self.st.add(z3.And(v >= lo, v <= hi))
        self.I.set_bounds(v, lo, hi)
        self.mv[name] = v
        return v

    def token_info(self, supply):
        return Agg('TokenInfoResponse', (self.I.S('tok'), self.I.S('TOK'), 6, U128(supply)))

    # ------------------------------------------------------------------ build storage
    def config_value(self, **over):
        mk = self.mk
        f = dict(creator=mk.caddr(self.owner), update_reward_index_addr=mk.caddr(self.updater),
                 reward_dispatcher_contract=some(mk.caddr(self.dispatcher)),
                 validators_registry_contract=some(mk.caddr(self.registry)),
                 bsei_token_contract=some(mk.caddr(self.bsei_token)),
                 stsei_token_contract=some(mk.caddr(self.stsei_token)),
                 airdrop_registry_contract=some(mk.caddr(self.airdrop)),
                 rewards_contract=some(mk.caddr(self.rewards)))
        f.update(over)
        return mk.struct('basset::hub::Config', HUB, **f)

    def state_value(self):
        return self.mk.struct('basset::hub::State', HUB,
                              bsei_exchange_rate=DEC(self.rb_stored), stsei_exchange_rate=DEC(self.rs_stored),
                              total_bond_bsei_amount=U128(self.Bb), total_bond_stsei_amount=U128(self.Bs),
                              last_index_modification=self.last_index, prev_hub_balance=U128(self.prev_hub_balance),
                              last_unbonded_time=self.last_unbonded, last_processed_batch=self.last_processed)

    def params_value(self, paused=None):
        p = self.paused if paused is None else paused
        pv = some(p) if not isinstance(p, (Agg, SymEnum)) else p
        return self.mk.struct('basset::hub::Parameters', HUB, epoch_period=self.epoch, underlying_coin_denom=self.denom,
                              unbonding_period=self.unbonding, peg_recovery_fee=DEC(self.fee),
                              er_threshold=DEC(self.threshold), reward_denom=self.reward_denom, paused=pv)

    def batch_value(self):
        return self.mk.struct('basset::hub::CurrentBatch', HUB, id=self.batch_id,
                              requested_bsei_with_fee=U128(self.Qb), requested_stsei=U128(self.Qs))

    def install(self, config=None, params=None, new_owner=None, extra_entries=()):
        ents = [
            Entry(('K', b'\x00\x06config'), (), config or self.config_value(), True),
            Entry(('K', b'\x00\x0bparameteres'), (), params or self.params_value(), True),
            Entry(('K', b'\x00\x0dcurrent_batch'), (), self.batch_value(), True),
            Entry(('K', b'\x00\x05state'), (), self.state_value(), True),
            Entry(('K', lp(b'newowner')), (), Agg('NewOwnerAddr', (self.mk.caddr(new_owner or self.owner),)), True),
        ]
        for h in self.histories:
            ents.append(Entry(('P', b'history_map'), (('n', h['id']),), h['value'], True))
        for w in self.waits:
            ents.append(Entry(('B', b'v2_wait'), (('s', w['addr'].id), ('n', w['batch'])), w['value'], True))
        ents.extend(extra_entries)
        self.st.stores[HUB] = Store(ents, closed=frozenset(self.closed), open_default=False)

    def add_history(self, tag, released=None, time=None):
        iv = self.iv
        hid = iv('h%s_id' % tag, 1, 2 ** 32)
        h = dict(id=hid, time=time if time is not None else iv('h%s_time' % tag, 0, U64_MAX),
                 bsei=iv('h%s_bsei' % tag, 0, CAP), bsei_applied=iv('h%s_bsei_applied' % tag, 0, U128_MAX),
                 bsei_wr=iv('h%s_bsei_wrate' % tag, 0, U128_MAX),
                 stsei=iv('h%s_stsei' % tag, 0, CAP), stsei_applied=iv('h%s_stsei_applied' % tag, 0, U128_MAX),
                 stsei_wr=iv('h%s_stsei_wrate' % tag, 0, U128_MAX),
                 released=released if released is not None else z3.Bool('h%s_released' % tag))
        h['value'] = self.mk.struct('basset::hub::UnbondHistory', HUB, batch_id=hid, time=h['time'],
                                    bsei_amount=U128(h['bsei']), bsei_applied_exchange_rate=DEC(h['bsei_applied']),
                                    bsei_withdraw_rate=DEC(h['bsei_wr']), stsei_amount=U128(h['stsei']),
                                    stsei_applied_exchange_rate=DEC(h['stsei_applied']),
                                    stsei_withdraw_rate=DEC(h['stsei_wr']), released=h['released'])
        self.histories.append(h)
        return h

    def add_wait(self, tag, addr, batch):
        iv = self.iv
        w = dict(addr=addr, batch=batch, bsei=iv('w%s_bsei' % tag, 0, CAP), stsei=iv('w%s_stsei' % tag, 0, CAP))
        w['value'] = Agg('UnbondWaitEntity', (U128(w['bsei']), U128(w['stsei'])))
        self.waits.append(w)
        return w

    # ------------------------------------------------------------------ running
    def env(self):
        return self.mk.env(self.now, self.hub_addr)

    def execute(self, msg, sender, funds=()):
        I = self.I
        fn = I.crates[HUB]['contract::execute']
        info = self.mk.info(sender, funds)
        for st2, res in I.call_fn(self.st, fn, [self.mk.deps(True), self.env(), info, msg]):
            self.ctx.ob.paths += 1
            yield st2, res

    def query(self, st, msg):
        I = self.I
        fn = I.crates[HUB]['contract::query']
        for st2, res in I.call_fn(st, fn, [self.mk.deps(False), self.env(), msg]):
            yield st2, res

    def msg(self, vname, *pos, **fields):
        return self.mk.variant('basset::hub::ExecuteMsg', vname, *pos, crate=HUB, **fields)

    def receive(self, hook, sender, amount):
        hookv = self.mk.variant('basset::hub::Cw20HookMsg', hook, crate=HUB)
        recv = self.mk.struct('Cw20ReceiveMsg', 'cw20', sender=sender, amount=U128(amount), msg=JsonV(hookv))
        return self.msg('Receive', recv)

    # ------------------------------------------------------------------ reading results
    def item(self, st, key):
        for e in st.stores[HUB].entries:
            if e.fam == ('K', key) and e.key == ():
                return e.val
        return None

    def state_after(self, st):
        v = self.item(st, b'\x00\x05state')
        names = ['rb', 'rs', 'Bb', 'Bs', 'last_index', 'prev_hub_balance', 'last_unbonded', 'last_processed']
        out = {}
        for n, f in zip(names, v.fields):
            out[n] = f.fields[0] if isinstance(f, Agg) else f
        return out

    def batch_after(self, st):
        v = self.item(st, b'\x00\x0dcurrent_batch')
        return {'id': v.fields[0], 'Qb': v.fields[1].fields[0], 'Qs': v.fields[2].fields[0]}

    def messages(self, st, res):
        """decode the Response of an Ok result into a list of simple dicts."""
        I = self.I
        resp = res.fields[0]
        out = []
        for sm in resp.fields[0].items:
            out.append(decode_msg(I, st, sm.fields[1]))
        return out


def decode_msg(I, st, m):
    """CosmosMsg Agg -> dict"""
    k = m.vname
    inner = m.fields[0]
    if k == 'Bank':
        if inner.vname == 'Send':
            coins = [(c.fields[0], c.fields[1].fields[0]) for c in I.val(st, inner.fields[1]).items]
            return {'kind': 'bank_send', 'to': inner.fields[0], 'coins': coins}
        return {'kind': 'bank_' + inner.vname}
    if k == 'Staking':
        d = {'kind': inner.vname.lower()}
        if inner.vname in ('Delegate', 'Undelegate'):
            d['validator'] = inner.fields[0]
            c = inner.fields[1]
            d['denom'] = c.fields[0]
            d['amount'] = c.fields[1].fields[0]
        elif inner.vname == 'Redelegate':
            d['src'] = inner.fields[0]
            d['dst'] = inner.fields[1]
            c = inner.fields[2]
            d['denom'] = c.fields[0]
            d['amount'] = c.fields[1].fields[0]
        return d
    if k == 'Distribution':
        return {'kind': 'dist_' + inner.vname, 'fields': inner.fields}
    if k == 'Wasm':
        if inner.vname == 'Execute':
            msg = inner.fields[1]
            msg = msg.v if isinstance(msg, JsonV) else msg
            funds = [(c.fields[0], c.fields[1].fields[0]) for c in I.val(st, inner.fields[2]).items]
            return {'kind': 'wasm_execute', 'contract': inner.fields[0], 'msg': msg, 'funds': funds}
        return {'kind': 'wasm_' + inner.vname}
    return {'kind': k}


def rate_of(I, st, B, claims):
    """the exchange rate the contract defines: floor(B*1e18/claims), or 1 when either is zero."""
    q = I.fresh('rate_q')
    r = I.fresh('rate_r')
    cond = z3.And(B != 0, claims != 0)
    st.add(z3.Implies(cond, z3.And(B * E == q * claims + r, r >= 0, r < claims, q >= 0)))
    st.add(z3.Implies(z3.Not(cond), q == E))
    return q


# ---------------------------------------------------------------------- effects of one transaction
class Effects:
    pass


def effects(W, st, res):
    """summarise an Ok result: token mints/burns, staking messages, bank sends, synced state, post state."""
    I = W.I
    e = Effects()
    e.msgs = W.messages(st, res)
    e.mint_b = e.mint_s = e.burn_b = e.burn_s = 0
    e.delegated = e.undelegated = 0
    e.delegate_msgs = []
    e.undelegate_msgs = []
    e.redelegate_msgs = []
    e.bank = []
    e.other = []
    e.mint_to = []
    for m in e.msgs:
        if m['kind'] == 'wasm_execute' and isinstance(m['msg'], Agg) and m['msg'].ty == 'Cw20ExecuteMsg':
            c = m['contract']
            mm = m['msg']
            tok = 'b' if c.id == W.bsei_token.id else ('s' if c.id == W.stsei_token.id else None)
            if tok is None:
                e.other.append(m)
                continue
            if mm.vname == 'Mint':
                amt = mm.fields[1].fields[0]
                e.mint_to.append((tok, mm.fields[0], amt))
                if tok == 'b':
                    e.mint_b = e.mint_b + amt
                else:
                    e.mint_s = e.mint_s + amt
            elif mm.vname == 'Burn':
                amt = mm.fields[0].fields[0]
                if tok == 'b':
                    e.burn_b = e.burn_b + amt
                else:
                    e.burn_s = e.burn_s + amt
            else:
                e.other.append(m)
        elif m['kind'] == 'delegate':
            e.delegated = e.delegated + m['amount']
            e.delegate_msgs.append(m)
        elif m['kind'] == 'undelegate':
            e.undelegated = e.undelegated + m['amount']
            e.undelegate_msgs.append(m)
        elif m['kind'] == 'redelegate':
            e.redelegate_msgs.append(m)
        elif m['kind'] == 'bank_send':
            e.bank.append(m)
        else:
            e.other.append(m)
    e.post = W.state_after(st)
    e.batch = W.batch_after(st)
    e.Sb2 = W.Sb + e.mint_b - e.burn_b
    e.Ss2 = W.Ss + e.mint_s - e.burn_s
    # synced state = first write of the STATE item in this transaction (slashing() saves it)
    e.sync = None
    e.state_writes = 0
    for ev in st.log:
        if ev[0] == 'write' and ev[2] == ('K', b'\x00\x05state'):
            e.state_writes += 1
            if e.sync is None:
                v = ev[5].val if hasattr(ev[5], 'val') else ev[5]
                names = ['rb', 'rs', 'Bb', 'Bs', 'last_index', 'prev_hub_balance', 'last_unbonded', 'last_processed']
                e.sync = {n: (f.fields[0] if isinstance(f, Agg) else f) for n, f in zip(names, v.fields)}
    e.history_writes = [ev for ev in st.log if ev[0] == 'write' and ev[2] == ('P', b'history_map')]
    e.wait_writes = [ev for ev in st.log if ev[0] == 'write' and ev[2] == ('B', b'v2_wait')]
    e.queries = [ev for ev in st.log if ev[0] == 'query']
    return e


def is_ok(res):
    return (not isinstance(res, Panic)) and res.vname == 'Ok'


def is_err(res):
    return (not isinstance(res, Panic)) and res.vname == 'Err'


OPS = ['bond', 'bond_stsei', 'bond_rewards', 'unbond_bsei', 'unbond_stsei', 'convert_bsei', 'convert_stsei', 'check_slashing']


def start_op(W, op, amount=None, user=None):
    """start one hub transaction of kind `op` with a symbolic amount from `user`; returns generator."""
    I = W.I
    user = user or I.S('user_a')
    W.user = user
    if amount is None:
        amount = W.iv('amount', 0, CAP)
    W.amount = amount
    if op == 'bond':
        return W.execute(W.msg('Bond'), user, [W.mk.coin(amount, W.denom)])
    if op == 'bond_stsei':
        return W.execute(W.msg('BondForStSei'), user, [W.mk.coin(amount, W.denom)])
    if op == 'bond_rewards':
        return W.execute(W.msg('BondRewards'), W.dispatcher, [W.mk.coin(amount, W.denom)])
    if op == 'unbond_bsei':
        return W.execute(W.receive('Unbond', user, amount), W.bsei_token)
    if op == 'unbond_stsei':
        return W.execute(W.receive('Unbond', user, amount), W.stsei_token)
    if op == 'convert_bsei':
        return W.execute(W.receive('Convert', user, amount), W.bsei_token)
    if op == 'convert_stsei':
        return W.execute(W.receive('Convert', user, amount), W.stsei_token)
    if op == 'check_slashing':
        return W.execute(W.msg('CheckSlashing'), user)
    raise ValueError(op)


def fdiv(I, st, x, y):
    """spec-side floor division (adds the division lemma to st)."""
    return I.idiv(st, x, y)[0]


# ---------------------------------------------------------------------- replay scenarios (model -> real run)
ADDR = dict(hub='hub_contract', owner='owner_addr', bsei='bsei_token', stsei='stsei_token',
            dispatcher='dispatcher_contract', registry='registry_contract', rewards='reward_contract',
            airdrop='airdrop_registry', updater='index_updater', user='user_a')


def mget(m, k, d=0):
    v = m.get(k, d)
    if isinstance(v, str):
        if v in ('True', 'False'):
            return v == 'True'
        try:
            return int(v)
        except ValueError:
            return d
    return v


def hub_storage(m, histories=(), waits=(), paused=False):
    st = {
        'config': {'creator': ADDR['owner'], 'update_reward_index_addr': ADDR['updater'],
                   'reward_dispatcher_contract': ADDR['dispatcher'], 'validators_registry_contract': ADDR['registry'],
                   'bsei_token_contract': ADDR['bsei'], 'stsei_token_contract': ADDR['stsei'],
                   'airdrop_registry_contract': ADDR['airdrop'], 'rewards_contract': ADDR['rewards']},
        'state': {'bsei_exchange_rate': str(mget(m, 'rate_bsei_stored', E)), 'stsei_exchange_rate': str(mget(m, 'rate_stsei_stored', E)),
                  'total_bond_bsei_amount': str(mget(m, 'B_bsei')), 'total_bond_stsei_amount': str(mget(m, 'B_stsei')),
                  'last_index_modification': mget(m, 'last_index_modification'),
                  'prev_hub_balance': str(mget(m, 'prev_hub_balance')),
                  'last_unbonded_time': mget(m, 'last_unbonded_time'), 'last_processed_batch': mget(m, 'last_processed_batch')},
        'params': {'epoch_period': mget(m, 'epoch_period'), 'underlying_coin_denom': 'usei',
                   'unbonding_period': mget(m, 'unbonding_period'), 'peg_recovery_fee': str(mget(m, 'peg_recovery_fee')),
                   'er_threshold': str(mget(m, 'er_threshold')), 'reward_denom': 'uusd', 'paused': paused},
        'current_batch': {'id': mget(m, 'current_batch_id', 1), 'requested_bsei_with_fee': str(mget(m, 'Q_bsei')),
                          'requested_stsei': str(mget(m, 'Q_stsei'))},
        'new_owner': ADDR['owner'],
        'histories': list(histories), 'waits': list(waits),
    }
    return st


def hub_querier(m):
    dels = []
    i = 0
    while 'deleg_%d' % i in m:
        dels.append({'validator': 'dval%d' % i, 'amount': str(mget(m, 'deleg_%d' % i)), 'denom': 'usei'})
        i += 1
    vals = []
    i = 0
    while 'regval_%d' % i in m:
        vals.append({'address': 'rval%d' % i, 'total_delegated': str(mget(m, 'regval_%d' % i))})
        i += 1
    return {'balances': [{'address': ADDR['hub'], 'denom': 'usei', 'amount': str(mget(m, 'hub_balance'))}],
            'delegations': dels, 'validators': vals,
            'supplies': [{'token': ADDR['bsei'], 'supply': str(mget(m, 'S_bsei'))},
                         {'token': ADDR['stsei'], 'supply': str(mget(m, 'S_stsei'))}],
            'cw20_balances': []}


def op_message(op, m):
    amt = str(mget(m, 'amount'))
    import base64
    import json as _j

    def recv(hook):
        return {'receive': {'sender': ADDR['user'], 'amount': amt,
                            'msg': base64.b64encode(_j.dumps({hook: {}}).encode()).decode()}}
    funds = [{'denom': 'usei', 'amount': amt}]
    table = {
        'bond': ({'bond': {}}, ADDR['user'], funds),
        'bond_stsei': ({'bond_for_st_sei': {}}, ADDR['user'], funds),
        'bond_rewards': ({'bond_rewards': {}}, ADDR['dispatcher'], funds),
        'unbond_bsei': (recv('unbond'), ADDR['bsei'], []),
        'unbond_stsei': (recv('unbond'), ADDR['stsei'], []),
        'convert_bsei': (recv('convert'), ADDR['bsei'], []),
        'convert_stsei': (recv('convert'), ADDR['stsei'], []),
        'check_slashing': ({'check_slashing': {}}, ADDR['user'], []),
        'withdraw': ({'withdraw_unbonded': {}}, ADDR['user'], []),
    }
    return table[op]


def hub_scenario(m, op, histories=(), waits=(), paused=False):
    msg, sender, funds = op_message(op, m)
    return {'kind': 'hub', 'entry': 'execute', 'storage': hub_storage(m, histories, waits, paused), 'querier': hub_querier(m),
            'env': {'time': mget(m, 'now'), 'contract': ADDR['hub']}, 'info': {'sender': sender, 'funds': funds},
            'msg': msg, 'dump_addrs': [ADDR['user'], 'user_b']}


def real_effects(out):
    """decode the real run's response into mints/burns/staking totals (exact integers)."""
    r = out.get('result', {})
    e = {'ok': 'ok' in r, 'mint_b': 0, 'mint_s': 0, 'burn_b': 0, 'burn_s': 0, 'delegated': 0, 'undelegated': 0,
         'delegate': [], 'undelegate': [], 'bank': [], 'wasm': [], 'mint_to': []}
    if not e['ok']:
        e['err'] = r.get('err') or r.get('panic') or str(r)
        return e
    for sm in r['ok'].get('messages', []):
        msg = sm['msg']
        if 'wasm' in msg and 'execute' in msg['wasm']:
            x = msg['wasm']['execute']
            inner = x['msg']
            tok = 'b' if x['contract_addr'] == ADDR['bsei'] else ('s' if x['contract_addr'] == ADDR['stsei'] else None)
            if tok and isinstance(inner, dict) and 'mint' in inner:
                e['mint_' + tok] += int(inner['mint']['amount'])
                e['mint_to'].append((tok, inner['mint']['recipient'], int(inner['mint']['amount'])))
            elif tok and isinstance(inner, dict) and 'burn' in inner:
                e['burn_' + tok] += int(inner['burn']['amount'])
            else:
                e['wasm'].append(x)
        elif 'staking' in msg:
            s = msg['staking']
            if 'delegate' in s:
                e['delegated'] += int(s['delegate']['amount']['amount'])
                e['delegate'].append(s['delegate'])
            elif 'undelegate' in s:
                e['undelegated'] += int(s['undelegate']['amount']['amount'])
                e['undelegate'].append(s['undelegate'])
            else:
                e.setdefault('redelegate', []).append(s.get('redelegate'))
        elif 'bank' in msg:
            e['bank'].append(msg['bank'])
        else:
            e.setdefault('other', []).append(msg)
    return e


def sdiv(I, st, x, y, sem=False):
    """spec-side floor division that never constrains the path: q = floor(x/y) when y > 0, else 0.
    sem=True: reuse the quotient of a division the code made on this path when the operands are provably equal."""
    return I.gdiv(st, x, y, semantic=sem)


def spec_rate(I, st, B, claims):
    """floor(B*1e18/claims), or 1 when either factor is zero (the contract's definition of an exchange rate)."""
    q = sdiv(I, st, B * E, claims)
    return z3.If(z3.Or(B == 0, claims == 0), E, q)


def hub_querier_template(W):
    """querier facts of a HubWorld as a scenario template."""
    def q(T):
        return {'balances': [{'address': T.string(W.hub_addr), 'denom': T.string(W.denom), 'amount': T.value(U128(W.hub_balance))}],
                'delegations': [{'validator': T.string(v), 'amount': T.value(U128(a)), 'denom': T.string(W.denom)}
                                for v, a in zip(W.del_validators, W.del_amounts)],
                'validators': [{'address': T.string(v), 'total_delegated': T.value(U128(a))} for v, a in zip(W.val_names, W.val_amounts)],
                'supplies': [{'token': T.string(W.bsei_token), 'supply': T.value(U128(W.Sb))},
                             {'token': T.string(W.stsei_token), 'supply': T.value(U128(W.Ss))}],
                'cw20_balances': []}
    return q
