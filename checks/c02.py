# C02  Hub never books more stake than is delegated; bonds are delegated in full
import z3
from smir.values import *   # noqa
from checks.hubmodel import *     # noqa

CRATES = ['basset_sei_hub']
BOUNDS = {'quick': {'registry validators': '1..2', 'delegations': '1'}, 'thorough': {'registry validators': '1..3', 'delegations': '1..2'}}
ASSUMPTIONS = ['E1, E3, E4 (DESIGN.md section 4)', 'delegated amount after the transaction = before + Delegate - Undelegate of the emitted messages (E4)']
OUTSIDE = ['more validators / delegation entries than the bound', 'validators of a foreign denomination in the delegation list']


def equal_delegations(W):
    """many delegation entries of the plainest shape: the same amount on every validator, nothing slashed (delegated stake =
    booked stake), the epoch has passed so that the unbond undelegates the batch"""
    st = W.st
    for a in W.del_amounts[1:]:
        st.add(a == W.del_amounts[0])
    st.add(W.del_amounts[0] >= 10 ** 6, W.D == W.Bb + W.Bs, W.now - W.last_unbonded > W.epoch)


def mk(op, nv, nd, shape=None, fixed=None):
    def ob(ctx):
        W = HubWorld(ctx, n_validators=nv, n_delegations=nd, fixed=fixed)
        W.install()
        if shape is not None:
            shape(W)
        I = W.I
        S = I.summ
        nok = 0
        for st, res in start_op(W, op):
            if not is_ok(res):
                continue
            nok += 1
            e = effects(W, st, res)
            D2 = W.D + e.delegated - e.undelegated
            cl = [(e.post['Bb'] + e.post['Bs'] <= D2, 'booked stake does not exceed the delegated stake', op + ':books'),
                  (len(e.bank) == 0, 'no coins leave the hub', op + ':bank')]
            if op in ('bond', 'bond_stsei', 'bond_rewards'):
                cl.append((e.delegated == W.amount, 'delegate messages sum to exactly the payment', op + ':full'))
                for dm in e.delegate_msgs:
                    inreg = z3_or_list([S.struct_eq(st, dm['validator'], v) for v in W.val_names])
                    cl.append((inreg, 'delegation only to registered validators', op + ':registered'))
                    cl.append((dm['amount'] >= 1, 'no zero-amount delegate message', op + ':nonzero'))
                    cl.append((S.struct_eq(st, dm['denom'], W.denom), 'delegation in the payment denomination', op + ':denom'))
                cl.append((e.undelegated == 0, 'bond never undelegates', op + ':noundelegate'))
            else:
                cl.append((e.delegated == 0, 'no delegation without a payment', op + ':nodelegate'))
                booked_drop = (e.sync['Bb'] + e.sync['Bs']) - (e.post['Bb'] + e.post['Bs']) if e.sync else 0
                if op.startswith('unbond'):
                    cl.append((booked_drop == e.undelegated, 'a batch undelegation removes from the books exactly what it undelegates', op + ':exact'))
                    for um in e.undelegate_msgs:
                        # each undelegation is bounded by the delegation on that validator
                        conds = []
                        for dv, da in zip(W.del_validators, W.del_amounts):
                            conds.append(z3.And(S.struct_eq(st, um['validator'], dv) if not isinstance(S.struct_eq(st, um['validator'], dv), bool)
                                                else z3.BoolVal(S.struct_eq(st, um['validator'], dv)), um['amount'] <= da))
                        cl.append((z3.Or(*conds), 'never undelegates more from a validator than is delegated there', op + ':holding'))
                        cl.append((um['amount'] >= 1, 'no zero-amount undelegate message', op + ':nonzero'))
                else:
                    cl.append((e.undelegated == 0, 'no undelegation', op + ':noundelegate'))
                    if op.startswith('convert'):
                        cl.append((booked_drop == 0, 'conversion moves value between pools without changing the total', op + ':total'))
            ctx.require_all(st, cl, W.mv)
            ctx.witness('%s after slashing' % op, st, [W.D < W.Bb + W.Bs], W.mv)
            if op.startswith('unbond'):
                ctx.witness('%s with undelegation' % op, st, [e.undelegated > 0], W.mv)
        ctx.need_witness('Ok path of ' + op, nok > 0)
        if shape is None:
            ctx.expect_witness('slashed pre-state reachable (%s)' % op, 'after slashing')
        if op.startswith('unbond'):
            ctx.expect_witness('undelegation branch reachable (%s)' % op, 'with undelegation')
        ctx.ob.bounds = {'validators': nv, 'delegations': nd}
        if shape is not None:
            ctx.ob.bounds['shape'] = shape.__doc__
    return ob


def z3_or_list(xs):
    out = []
    for x in xs:
        if x is True:
            return True
        if x is False:
            continue
        out.append(x)
    if not out:
        return False
    return z3.Or(*out) if len(out) > 1 else out[0]


OBLIGATIONS = []
for _op in ['bond', 'bond_stsei', 'bond_rewards']:
    for _nv in (1, 2, 3):
        OBLIGATIONS.append(('%s_v%d' % (_op, _nv), mk(_op, _nv, 1)))
for _op in ['unbond_bsei', 'unbond_stsei']:
    for _nd in (1, 2):        # 3 delegation entries exceed the executor's block budget (undelegation plan: 3 passes x 3 entries)
        OBLIGATIONS.append(('%s_d%d' % (_op, _nd), mk(_op, 1, _nd)))
OBLIGATIONS.append(('unbond_bsei_d8_equal', mk('unbond_bsei', 1, 8, shape=equal_delegations)))
# the same with 12 entries of a concrete equal stake (constant-folded by the executor)
OBLIGATIONS.append(('unbond_bsei_d12_fixed', mk('unbond_bsei', 1, 12, shape=equal_delegations, fixed={'deleg_%d' % i: 10 ** 9 for i in range(12)})))
for _op in ['convert_bsei', 'convert_stsei', 'check_slashing']:
    OBLIGATIONS.append(('%s_d1' % _op, mk(_op, 1, 1)))


def _index_update(ctx):
    """UpdateGlobalIndex emits no bank / staking message and writes no pool (world, claims and replay of C19's hub_update)"""
    from checks.c19 import ob_hub_update
    return ob_hub_update(1)(ctx)


OBLIGATIONS.append(('index_update_d1', _index_update))


def tier_filter(name, tier):
    return tier == 'thorough' or not (name.endswith('_v3') or name.endswith('_d3') or name.endswith('_d2') or name.endswith('_d12_fixed'))


def replay_any(v, run_scenario):
    if (v.get('key') or '').startswith('hub_update:'):
        from smir.replay import generic_replay
        import checks.c19 as c19_
        return generic_replay(c19_)(v, run_scenario)
    m = v['model']
    key = v.get('key') or ':'
    op = key.split(':')[0]
    scn = hub_scenario(m, op)
    out = run_scenario(scn)
    if 'error' in out:
        return {'status': 'unavailable', 'detail': out['error']}
    e = real_effects(out)
    bad = []
    if e['ok']:
        post = out['storage']['state']
        syn = out['synced_state']
        D = 0
        i = 0
        dels = {}
        while 'deleg_%d' % i in m:
            D += mget(m, 'deleg_%d' % i)
            dels['dval%d' % i] = mget(m, 'deleg_%d' % i)
            i += 1
        vals = set()
        i = 0
        while 'regval_%d' % i in m:
            vals.add('rval%d' % i)
            i += 1
        B2 = int(post['total_bond_bsei_amount']) + int(post['total_bond_stsei_amount'])
        B1 = int(syn['total_bond_bsei_amount']) + int(syn['total_bond_stsei_amount'])
        D2 = D + e['delegated'] - e['undelegated']
        amt = mget(m, 'amount')
        if B2 > D2:
            bad.append('booked %d > delegated %d' % (B2, D2))
        if e['bank']:
            bad.append('bank message emitted')
        if op.startswith('bond'):
            if e['delegated'] != amt:
                bad.append('delegated %d != payment %d' % (e['delegated'], amt))
            for d in e['delegate']:
                if d['validator'] not in vals:
                    bad.append('delegation to unregistered validator ' + d['validator'])
                if int(d['amount']['amount']) == 0:
                    bad.append('zero delegate')
                if d['amount']['denom'] != 'usei':
                    bad.append('wrong denom')
        else:
            if e['delegated']:
                bad.append('delegation without payment')
            if op.startswith('unbond'):
                if B1 - B2 != e['undelegated']:
                    bad.append('books reduced by %d, undelegated %d' % (B1 - B2, e['undelegated']))
                for u in e['undelegate']:
                    if int(u['amount']['amount']) > dels.get(u['validator'], 0):
                        bad.append('undelegates more than delegated on ' + u['validator'])
                    if int(u['amount']['amount']) == 0:
                        bad.append('zero undelegate')
            elif e['undelegated'] or (op.startswith('convert') and B1 != B2):
                bad.append('unexpected undelegation / total change')
    return {'status': 'reproduced' if bad else 'mismatch', 'scenario': scn, 'output': out, 'oracle': bad}


REPLAY = {'*': replay_any}
