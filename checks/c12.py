# C12  Stake distribution conserves amounts and never worsens validator imbalance
# Deciding method: symbolic execution of the MIR of calculate_delegations / calculate_undelegations
# for n validators (every n up to the bound, separately), all amounts/delegations arbitrary in u128
# with total <= u128::MAX; every path's post-condition discharged by z3 (Int theory).
import z3
from smir.values import *   # noqa
from smir.interp import State

CRATES = ['basset_sei_validators_registry', 'basset_sei_hub']
BOUNDS = {'quick': {'validators': '0..4', 'loop_unwinding': 'unwinding assertion: while-loop of calculate_undelegations exits within 3 passes'},
          'thorough': {'validators': '0..6'}}
ASSUMPTIONS = ['sum of existing delegations + amount <= u128::MAX (outside: the contract panics on overflow)',
               'list length <= bound; longer lists outside the claim']
OUTSIDE = ['n > bound', 'totals above u128::MAX']
NMAX = {'quick': 4, 'thorough': 6}


def setup(ctx, n, und):
    I = ctx.interp()
    st = State()
    d = [z3.Int('d%d' % i) for i in range(n)]
    amt = z3.Int('amount')
    for x in d + [amt]:
        st.add(z3.And(x >= 0, x <= U128_MAX))
    vals = VecV([Agg('ValidatorResponse', (U128(d[i]), I.S('val%d' % i))) for i in range(n)])
    name = 'calculate_undelegations' if und else 'calculate_delegations'
    fn = I.crates['basset_sei_validators_registry'][name]
    if und:
        args = [U128(amt), vals]
    else:
        args = [U128(amt), Ref(st.new_cell(vals), ())]
    return I, st, fn, args, d, amt


def ceil_floor(st_extra, tot, n):
    q = z3.Int('avg_q')
    r = z3.Int('avg_r')
    st_extra.append(z3.And(tot == q * n + r, r >= 0, r < n))
    return z3.If(r > 0, q + 1, q), q


def mk_deleg(n):
    def ob(ctx):
        I, st, fn, args, d, amt = setup(ctx, n, False)
        mv = {'amount': amt}
        mv.update({'d%d' % i: x for i, x in enumerate(d)})
        tot = sum(d) + amt
        inside = tot <= U128_MAX
        nok = 0
        for st2, res in I.call_fn(st, fn, args):
            ctx.ob.paths += 1
            if isinstance(res, Panic):
                ctx.infeasible(st2, 'no panic inside the domain (total <= u128::MAX)', 'del:panic', mv, [inside])
                continue
            if n == 0:
                if res.vname != 'Err':
                    ctx.ob.violations.append({'claim': 'empty list must be rejected', 'site': 'n=0', 'model': {}})
                continue
            if res.vname == 'Err':
                ctx.infeasible(st2, 'delegation plan fails only for an empty list', 'del:Err', mv, [inside])
                continue
            nok += 1
            rem = res.fields[0].fields[0].fields[0]
            dl = [x.fields[0] for x in res.fields[0].fields[1].items]
            ext = []
            ceil, floor = ceil_floor(ext, tot, n)
            A = [inside] + ext
            ctx.require(st2, rem == 0, 'nothing left over (remainder = 0)', 'del:remainder', mv, A)
            ctx.require(st2, sum(dl) == amt, 'plan distributes exactly the amount', 'del:sum', mv, A)
            ctx.require(st2, z3.And(*[z3.Implies(d[i] > ceil, dl[i] == 0) for i in range(n)]),
                        'nothing to a validator above the even share', 'above-avg', mv, A)
            ctx.require(st2, z3.And(*[z3.Implies(dl[i] != 0, d[i] + dl[i] <= ceil) for i in range(n)]),
                        'no validator lifted above ceil(T/n)', 'lifted', mv, A)
            ctx.require(st2, z3.And(*[dl[i] >= 0 for i in range(n)]), 'amounts are non-negative', 'del:nonneg', mv, A)
            if nok <= 2:
                ctx.witness('Ok path n=%d with amount>0' % n, st2, [inside, amt > 0], mv)
        if n > 0:
            ctx.need_witness('some Ok path (n=%d)' % n, nok > 0)
            ctx.expect_witness('Ok path with amount>0 (n=%d)' % n, 'Ok path n=%d' % n)
        ctx.ob.bounds = {'n': n}
    return ob


def mk_undeleg(n):
    def ob(ctx):
        I, st, fn, args, d, amt = setup(ctx, n, True)
        I.loop_bound = 3 * (n + 2)      # unwinding bound: at most 3 passes of the while loop (n+... blocks per pass)
        mv = {'amount': amt}
        mv.update({'d%d' % i: x for i, x in enumerate(d)})
        tot = sum(d)
        inside = tot <= U128_MAX
        nok = 0
        nerr = 0
        try:
            outs = list(I.call_fn(st, fn, args))
        except Gap as e:
            if 'UNWIND' in str(e):
                ctx.ob.violations.append({'claim': 'undelegation plan terminates (unwinding assertion: <= 3 passes)',
                                          'site': 'unwind', 'model': {'detail': str(e)}})
                return
            raise
        for st2, res in outs:
            ctx.ob.paths += 1
            if isinstance(res, Panic):
                ctx.infeasible(st2, 'no panic inside the domain', 'und:panic', mv, [inside])
                continue
            if n == 0:
                if res.vname != 'Err':
                    ctx.ob.violations.append({'claim': 'empty list must be rejected', 'site': 'n=0', 'model': {}})
                continue
            if res.vname == 'Err':
                nerr += 1
                ctx.require(st2, amt > tot, 'fails only when the request exceeds the total', 'und:Err', mv, [inside])
                continue
            nok += 1
            ul = [x.fields[0] for x in res.fields[0].items]
            ext = []
            ceil, floor = ceil_floor(ext, tot - amt, n)
            A = [inside] + ext
            ctx.require(st2, amt <= tot, 'a request above the total must fail', 'und:Ok-but-too-big', mv, A)
            ctx.require(st2, sum(ul) == amt, 'plan removes exactly the requested amount', 'und:sum', mv, A)
            ctx.require(st2, z3.And(*[z3.And(ul[i] >= 0, ul[i] <= d[i]) for i in range(n)]),
                        'never more from a validator than it holds', 'und:holding', mv, A)
            ctx.require(st2, z3.And(*[z3.Implies(ul[i] != 0, d[i] - ul[i] >= floor) for i in range(n)]),
                        'no validator pushed below floor(T\'/n)', 'und:pushed-below', mv, A)
            if nok <= 2:
                ctx.witness('Ok path n=%d with amount>0' % n, st2, [inside, amt > 0], mv)
        if n > 0:
            ctx.need_witness('some Ok path (n=%d)' % n, nok > 0)
            ctx.expect_witness('Ok path with amount>0 (n=%d)' % n, 'Ok path n=%d' % n)
            ctx.need_witness('some Err path (n=%d)' % n, nerr > 0)
        ctx.ob.bounds = {'n': n, 'while_passes': 3}
    return ob


OBLIGATIONS = []
for _n in range(0, 7):
    OBLIGATIONS.append(('delegations_n%d' % _n, mk_deleg(_n)))
    OBLIGATIONS.append(('undelegations_n%d' % _n, mk_undeleg(_n)))


def tier_filter(name, tier):
    if name.startswith('hub_'):
        return True
    n = int(name.rsplit('n', 1)[1])
    return n <= NMAX[tier]


# ---------------------------------------------------------------------- replay (real code + exact oracle)
def oracle_deleg(d, amt, out):
    n = len(d)
    bad = []
    if 'panic' in out:
        return ['panic inside the domain: ' + out['panic']] if sum(d) + amt <= U128_MAX else []
    if n == 0:
        return [] if 'err' in out else ['empty list accepted']
    if 'err' in out:
        return ['delegation plan failed: ' + out['err']]
    plan = [int(x) for x in out['ok']['plan']]
    rem = int(out['ok']['remaining'])
    tot = sum(d) + amt
    ceil = -(-tot // n)
    if rem != 0:
        bad.append('remainder %d != 0' % rem)
    if sum(plan) != amt:
        bad.append('plan sums to %d, amount %d' % (sum(plan), amt))
    for i in range(n):
        if d[i] > ceil and plan[i] != 0:
            bad.append('validator %d above even share received %d' % (i, plan[i]))
        if plan[i] != 0 and d[i] + plan[i] > ceil:
            bad.append('validator %d lifted to %d above ceil %d' % (i, d[i] + plan[i], ceil))
    return bad


def oracle_undeleg(d, amt, out):
    n = len(d)
    bad = []
    tot = sum(d)
    if 'panic' in out:
        return ['panic inside the domain: ' + out['panic']] if tot <= U128_MAX else []
    if n == 0:
        return [] if 'err' in out else ['empty list accepted']
    if 'err' in out:
        return [] if amt > tot else ['undelegation plan failed although request <= total: ' + out['err']]
    plan = [int(x) for x in out['ok']['plan']]
    if amt > tot:
        bad.append('request above total accepted')
    floor = (tot - amt) // n
    if sum(plan) != amt:
        bad.append('plan sums to %d, amount %d' % (sum(plan), amt))
    for i in range(n):
        if plan[i] > d[i]:
            bad.append('validator %d: removes %d > holding %d' % (i, plan[i], d[i]))
        if plan[i] != 0 and d[i] - plan[i] < floor:
            bad.append('validator %d pushed to %d below floor %d' % (i, d[i] - plan[i], floor))
    return bad


def replay_any(v, run_scenario, obname=None):
    if (v.get('key') or '').startswith('unbond_'):
        from checks.c02 import replay_any as r2
        return r2(v, run_scenario)
    m = v['model']
    if 'amount' not in m:
        return {'status': 'unavailable', 'detail': 'violation without a concrete model (%s)' % v.get('site')}
    d = []
    i = 0
    while 'd%d' % i in m:
        d.append(int(m['d%d' % i]))
        i += 1
    amt = int(m['amount'])
    und = (v.get('key') or '').startswith('und')
    scn = {'kind': 'calc_undelegations' if und else 'calc_delegations', 'amount': str(amt), 'validators': [str(x) for x in d]}
    out = run_scenario(scn)
    if 'error' in out:
        return {'status': 'unavailable', 'detail': out['error']}
    bad = (oracle_undeleg if und else oracle_deleg)(d, amt, out)
    return {'status': 'reproduced' if bad else 'mismatch', 'scenario': scn, 'output': out, 'oracle': bad,
            'detail': '' if bad else 'real code satisfies the property on the model input'}


def _hub_messages(ctx):
    """the hub turns the undelegation plan into Undelegate messages: they remove exactly the requested amount and never more
    from a validator than is delegated there (two delegation entries; world, claims and replay of C02's unbond obligation)"""
    from checks.c02 import mk as mk2
    return mk2('unbond_bsei', 1, 2)(ctx)


OBLIGATIONS.append(('hub_undelegate_messages_d2', _hub_messages))
REPLAY = {'*': replay_any}
