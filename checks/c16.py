# C16  Reward-contract balances mirror bSei token balances at all times
# Assume/guarantee over the message interface:
#  token side  : every bSei operation emits, before any other message, Increase/DecreaseBalance messages to the
#                reward contract whose per-address net equals the change of that address' token balance;
#  reward side : Increase/DecreaseBalance from the token change the holder's staking balance and the total by
#                exactly the amount, and are rejected from anyone else.
import z3
from smir.values import *   # noqa
from checks.generic import *   # noqa
from checks.tokens import TokenWorld
from checks.c10 import MSG_TY
from checks.rewardmodel import RW

CRATES = ['basset_sei_token_bsei', 'basset_sei_reward']
BOUNDS = {'quick': {'ledger': 'lazily initialised symbolic accounts (owner / spender / recipient / contract may all alias)'}, 'thorough': {}}
ASSUMPTIONS = ['A-ADDR', 'messages of one transaction execute atomically and in order (E4)',
               'the reward contract address is the one configured in the dispatcher, found through the hub (E3)',
               'initial balances given at token instantiation are outside the property (it starts from a token without initial balances)']
OUTSIDE = ['the hub-side sequences (unbond = Send to hub + hub Burn) are compositions of the per-operation guarantees']
VARIANTS = ['Transfer', 'Burn', 'Send', 'Mint', 'TransferFrom', 'BurnFrom', 'SendFrom', 'IncreaseAllowance', 'DecreaseAllowance']


def ob_token(variant):
    def ob(ctx):
        ty, crate = MSG_TY['bsei']
        W = TokenWorld(ctx, 'bsei')
        W.install()
        I = W.I
        S = I.summ
        msg = sym_msg(W, ty, variant, crate)
        sender = W.sv('sender')
        raw_scenario(W, 'execute', msg, sender, querier=W.querier_template())
        nok = 0
        for st, res in W.execute(msg, sender):
            if not is_ok(res):
                continue
            nok += 1
            ch = W.balance_changes(st)
            msgs = W.messages(st, res)
            mirror = []
            cl = []
            seen_other = False
            for m in msgs:
                if m['kind'] == 'wasm_execute' and isinstance(m['msg'], Agg) and m['msg'].vname in ('IncreaseBalance', 'DecreaseBalance'):
                    sign = 1 if m['msg'].vname == 'IncreaseBalance' else -1
                    mirror.append((m['msg'].fields[0], sign * m['msg'].fields[1].fields[0]))
                    cl.append((m['contract'].id == W.reward.id, 'mirror messages go to the reward contract', 'bsei:%s:target' % variant))
                    cl.append((not seen_other, 'mirror messages precede every other message', 'bsei:%s:order' % variant))
                else:
                    seen_other = True
            points = [k[0][1] for k, _, _ in ch] + [S.to_str(st, a).id for a, _ in mirror]
            for x in points:
                dbal = sum(z3.If(k[0][1] == x, v1 - v0, 0) for k, v0, v1 in ch) if ch else 0
                net = sum(z3.If(S.to_str(st, a).id == x, amt, 0) for a, amt in mirror) if mirror else 0
                cl.append((dbal == net, 'per address: change of the token balance = net of the mirrored Increase/Decrease amounts', 'bsei:%s:mirror' % variant))
            dsum = sum((v1 - v0) for _, v0, v1 in ch) if ch else 0
            cl.append((dsum == (sum(a for _, a in mirror) if mirror else 0), 'total mirrored = change of the token supply', 'bsei:%s:total' % variant))
            ctx.require_all(st, cl, W.mv)
            ctx.witness('bsei %s Ok' % variant, st, True, W.mv, expect='ok')
            if len(ch) >= 1 and variant in ('Transfer', 'Send', 'TransferFrom', 'SendFrom'):
                ctx.witness('bsei %s to self (aliasing)' % variant, st, [z3.BoolVal(len(ch) == 1)], W.mv)
        ctx.need_witness('Ok path of bsei ' + variant, nok > 0)
        ctx.expect_witness('bsei %s reachable (solver)' % variant, 'bsei %s Ok' % variant)
    return ob


def ob_reward(variant):
    def ob(ctx):
        W = RW(ctx)
        W.install()
        for c in W.invariant():
            W.st.add(c)
        amount = W.iv('amount', 0, CAP)
        target = StrV(z3.Int('target_id'))
        W.mv['target_id'] = target.id
        W.st.add(z3.Or(target.id == W.addr_c.id, target.id == W.addr_o.id))
        msg = W.mk.variant('basset::reward::ExecuteMsg', variant, crate='basset', address=target, amount=U128(amount))
        raw_scenario(W, 'execute', msg, W.bsei_token, querier=W.querier_template())
        nok = 0
        sign = 1 if variant == 'IncreaseBalance' else -1
        for st, res in W.execute(msg, W.bsei_token):
            if not is_ok(res):
                if variant == 'IncreaseBalance':
                    ctx.infeasible(st, 'IncreaseBalance from the token is never rejected (the mirror cannot fall behind)', 'reward:IncreaseBalance:fails', W.mv)
                else:
                    tb = z3.If(target.id == W.addr_c.id, W.bal(W.hc), W.bal(W.ho))
                    ctx.require(st, tb < amount, 'DecreaseBalance from the token is rejected only when the mirrored balance is below the amount',
                                'reward:DecreaseBalance:fails', W.mv)
                continue
            nok += 1
            p = W.post(st)
            is_c = target.id == W.addr_c.id
            b_c0, b_o0 = W.bal(W.hc), W.bal(W.ho)
            b_c1, b_o1 = W.bal_of_entry(p['c']), W.bal_of_entry(p['o'])
            d = W.distinct()
            cl = [(z3.Implies(is_c, b_c1 == b_c0 + sign * amount), 'addressed holder\'s staking balance changes by exactly the amount', 'reward:%s:holder' % variant),
                  (z3.Implies(z3.And(d, z3.Not(is_c)), z3.And(b_o1 == b_o0 + sign * amount, b_c1 == b_c0)), 'only the addressed holder changes', 'reward:%s:other' % variant),
                  (p['T'] == W.total_balance + sign * amount, 'total staking balance changes by exactly the amount', 'reward:%s:total' % variant)]
            ctx.require_all(st, cl, W.mv)
            ctx.witness('reward %s Ok' % variant, st, True, W.mv, expect='ok')
        ctx.need_witness('Ok path of reward ' + variant, nok > 0)
    return ob


OBLIGATIONS = [('bsei_%s' % v, ob_token(v)) for v in VARIANTS] + [('reward_%s' % v, ob_reward(v)) for v in ('IncreaseBalance', 'DecreaseBalance')]


def ORACLE(v, scn, out):
    import base64, json as js
    from smir import rawstore
    key = v.get('key') or ''
    res = out.get('result', {})
    side, variant, what = key.split(':')
    if what == 'fails':
        return ['rejected: ' + str(res)[:200]] if ('ok' not in res and variant == 'IncreaseBalance') else ([] if 'ok' in res else None)
    if 'ok' not in res:
        return []
    pre = {base64.b64decode(k): js.loads(base64.b64decode(val)) for k, val in scn.get('storage', [])}
    post = {base64.b64decode(k): js.loads(base64.b64decode(val)) for k, val in out.get('storage', [])}
    bad = []
    if side == 'bsei':
        balp = rawstore.lp(b'balance')
        b0 = {k[len(balp):]: int(val) for k, val in pre.items() if k.startswith(balp)}
        b1 = {k[len(balp):]: int(val) for k, val in post.items() if k.startswith(balp)}
        net = {}
        order_ok = True
        target_ok = True
        seen_other = False
        for sm in res['ok']['messages']:
            m = sm['msg']
            inner = m.get('wasm', {}).get('execute', {}).get('msg') if 'wasm' in m else None
            if isinstance(inner, dict) and ('increase_balance' in inner or 'decrease_balance' in inner):
                kind = 'increase_balance' if 'increase_balance' in inner else 'decrease_balance'
                a = rawstore.canonical(inner[kind]['address'])
                net[a] = net.get(a, 0) + (1 if kind == 'increase_balance' else -1) * int(inner[kind]['amount'])
                if m['wasm']['execute']['contract_addr'] != 'reward_contract':
                    target_ok = False
                if seen_other:
                    order_ok = False
            else:
                seen_other = True
        if what == 'mirror':
            for a in set(b0) | set(b1) | set(net):
                if b1.get(a, 0) - b0.get(a, 0) != net.get(a, 0):
                    bad.append('address balance changed by %d but mirrored net is %d' % (b1.get(a, 0) - b0.get(a, 0), net.get(a, 0)))
        elif what == 'total':
            if sum(b1.values()) - sum(b0.values()) != sum(net.values()):
                bad.append('supply changed by %d, mirrored total %d' % (sum(b1.values()) - sum(b0.values()), sum(net.values())))
        elif what == 'order' and not order_ok:
            bad.append('mirror message after another message')
        elif what == 'target' and not target_ok:
            bad.append('mirror message not sent to the reward contract')
        return bad
    # reward side
    hp = rawstore.lp(b'holders')
    body = list(scn['msg'].values())[0]
    k = hp + rawstore.canonical(body['address'])
    amt = int(body['amount']) * (1 if 'increase_balance' in scn['msg'] else -1)
    h0 = int(pre[k]['balance']) if k in pre else 0
    h1 = int(post[k]['balance']) if k in post else 0
    if what == 'holder' and h1 != h0 + amt:
        bad.append('holder balance %d -> %d, amount %d' % (h0, h1, amt))
    if what == 'total' and int(post[b'\x00\x05state']['total_balance']) != int(pre[b'\x00\x05state']['total_balance']) + amt:
        bad.append('total balance not changed by the amount')
    if what == 'other':
        for kk in set(pre) | set(post):
            if kk.startswith(hp) and kk != k and (int(pre[kk]['balance']) if kk in pre else 0) != (int(post[kk]['balance']) if kk in post else 0):
                bad.append('another holder changed')
    return bad

from checks import migrate as _migrate
_migrate.attach(globals(), 'bsei')
_migrate.attach(globals(), 'reward')
