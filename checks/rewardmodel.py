# Shared harness of the bSei reward contract: two explicit holders (caller / other, may alias) + aggregated rest.
import z3
from smir.values import *   # noqa
from checks.generic import *   # noqa
from checks.c10 import RewardWorld


class RW(RewardWorld):
    def __init__(self, ctx):
        RewardWorld.__init__(self, ctx)
        I = self.I
        self.addr_c = I.S('holder_c')
        self.addr_o = StrV(z3.Int('holder_o_id'))
        self.mv['holder_o_id'] = self.addr_o.id
        self.hc = self.holder('c', self.addr_c)
        self.ho = self.holder('o', self.addr_o)
        # aggregated remainder: sum of balances and of accrued atomics of all other holders
        self.R_bal = self.iv('rest_balance', 0, CAP)
        self.R_acc = self.iv('rest_accrued_atomics', 0, CAP * E)
        self.closed = []

    def holder(self, tag, addr):
        h = dict(addr=addr, present=self.bv('h%s_present' % tag), balance=self.iv('h%s_balance' % tag, 0, CAP),
                 index=self.iv('h%s_index' % tag, 0, U128_MAX), pending=self.iv('h%s_pending' % tag, 0, U128_MAX))
        self.map_entry('holders', (('s', addr.id),), self.mk.struct('state::Holder', self.crate, balance=U128(h['balance']),
                                                                    index=DEC(h['index']), pending_rewards=DEC(h['pending'])),
                       present=h['present'])
        return h

    def acc(self, h, G=None):
        """accrued reward of a holder in atomics (exact): (G - index) * balance + pending; 0 for an absent holder"""
        G = self.G if G is None else G
        return z3.If(h['present'], (G - h['index']) * h['balance'] + h['pending'], 0)

    def bal(self, h):
        return z3.If(h['present'], h['balance'], 0)

    def distinct(self):
        return self.addr_o.id != self.addr_c.id

    def invariant(self):
        """INV-RW on the pre-state."""
        d = self.distinct()
        acc_o = z3.If(d, self.acc(self.ho), 0)
        bal_o = z3.If(d, self.bal(self.ho), 0)
        return [z3.Implies(self.hc['present'], self.hc['index'] <= self.G), z3.Implies(self.ho['present'], self.ho['index'] <= self.G),
                self.acc(self.hc) + acc_o + self.R_acc <= self.prev_reward_balance * E,
                self.bal(self.hc) + bal_o + self.R_bal == self.total_balance,
                self.prev_reward_balance <= self.bank,
                z3.Implies(d, z3.BoolVal(True))]

    def post(self, st):
        """post-state values: state item and the two explicit holders"""
        s = self.get_item(st, b'\x00\x05state')
        out = {'G': s.fields[0].fields[0], 'T': s.fields[1].fields[0], 'P': s.fields[2].fields[0]}
        for tag, h in (('c', self.hc), ('o', self.ho)):
            found = None
            for e in st.stores[self.crate].entries:
                if e.fam == ('M', b'holders') and len(e.key) == 1 and e.key[0][0] == 's' and not isinstance(e.key[0][1], bool):
                    same = e.key[0][1] is h['addr'].id or (isinstance(e.key[0][1], int) and isinstance(h['addr'].id, int) and e.key[0][1] == h['addr'].id) \
                        or (is_sym(e.key[0][1]) and is_sym(h['addr'].id) and e.key[0][1].eq(h['addr'].id))
                    if same:
                        found = e
            out[tag] = found
        return out

    def acc_of_entry(self, e, G):
        if e is None:
            return 0
        v = e.val
        if e.present is False or v is None:
            return 0
        a = (G - v.fields[1].fields[0]) * v.fields[0].fields[0] + v.fields[2].fields[0]
        return a if e.present is True else z3.If(e.present, a, 0)

    def bal_of_entry(self, e):
        if e is None or e.present is False or e.val is None:
            return 0
        b = e.val.fields[0].fields[0]
        return b if e.present is True else z3.If(e.present, b, 0)


def holder_writes(st):
    return [ev for ev in st.log if ev[0] == 'write' and ev[2] == ('M', b'holders')]
