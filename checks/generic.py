# Generic symbolic world for the non-hub contracts: explicit typed storage items + a configurable querier.
import z3
from smir.values import *   # noqa
from smir.interp import State
from smir.env import Store, Entry, Querier, lp
from smir.symval import Mk, fresh_value
from smir.summaries import eqv, z3_and

CAP = 10 ** 18
E = E18

CRATE = {
    'hub': 'basset_sei_hub', 'reward': 'basset_sei_reward', 'dispatcher': 'basset_sei_rewards_dispatcher',
    'registry': 'basset_sei_validators_registry', 'bsei': 'basset_sei_token_bsei', 'stsei': 'basset_sei_token_stsei',
}


class FnQuerier(Querier):
    """querier driven by python callbacks of the world object."""

    def __init__(self, W):
        self.W = W

    def bank_balance(self, I, st, addr, denom):
        yield from self.W.q_bank_balance(st, addr, denom)

    def all_balances(self, I, st, addr):
        yield from self.W.q_all_balances(st, addr)

    def all_delegations(self, I, st, delegator):
        yield from self.W.q_all_delegations(st, delegator)

    def delegation(self, I, st, delegator, validator):
        yield from self.W.q_delegation(st, delegator, validator)

    def smart(self, I, st, addr, msg, target_ty, crate):
        yield from self.W.q_smart(st, addr, msg, target_ty, crate)

    def all_validators(self, I, st):
        yield from self.W.q_all_validators(st)


class World:
    def __init__(self, ctx, contract, feas_ms=1500):
        self.ctx = ctx
        self.contract = contract
        self.crate = CRATE[contract]
        I = self.I = ctx.interp(feas_ms)
        self.mk = Mk(I)
        st = self.st = State()
        st.contract = self.crate
        st.querier = FnQuerier(self)
        self.mv = {}
        self.entries = []
        self.closed = []
        self.self_addr = I.S(contract + '_contract')
        self.now = self.iv('now', 0, U64_MAX)
        self.height = self.iv('height', 0, U64_MAX)
        self.havoc_n = 0

    # ------------------------------------------------------------------ variables
    def iv(self, name, lo, hi):
        v = z3.Int(name)
        self.st.add(z3.And(v >= lo, v <= hi))
        self.I.set_bounds(v, lo, hi)
        self.mv[name] = v
        return v

    def sv(self, name):
        """symbolic string (address / denom / name) that may alias any other string."""
        v = z3.Int(name)
        self.mv[name] = v
        return StrV(v)

    def bv(self, name):
        v = z3.Bool(name)
        self.mv[name] = v
        return v

    def fresh(self, ty, name, crate=None):
        return fresh_value(self.I, self.st, ty, crate or self.crate, name)

    # ------------------------------------------------------------------ storage
    def item(self, key, value):
        k = key if isinstance(key, bytes) else key.encode('latin-1')
        self.entries.append(Entry(('K', k), (), value, True))

    def map_entry(self, ns, key_terms, value, present=True):
        k = ns if isinstance(ns, bytes) else ns.encode('latin-1')
        self.entries.append(Entry(('M', k), tuple(key_terms), value, present))

    def install(self, open_default=False):
        self.st.stores[self.crate] = Store(self.entries, closed=frozenset(self.closed), open_default=open_default)

    def get_item(self, st, key):
        k = key if isinstance(key, bytes) else key.encode('latin-1')
        for e in st.stores[self.crate].entries:
            if e.fam == ('K', k) and e.key == ():
                return e.val if e.present is True else None
        return None

    def map_entries(self, st, ns):
        k = ns if isinstance(ns, bytes) else ns.encode('latin-1')
        return [e for e in st.stores[self.crate].entries if e.fam == ('M', k)]

    def writes(self, st):
        return [ev for ev in st.log if ev[0] == 'write']

    # ------------------------------------------------------------------ default querier: unknown => Gap
    def q_bank_balance(self, st, addr, denom):
        raise Gap('world %s: bank balance query not modelled' % self.contract)

    def q_all_balances(self, st, addr):
        raise Gap('world %s: all balances query not modelled' % self.contract)

    def q_all_delegations(self, st, delegator):
        raise Gap('world %s: delegations query not modelled' % self.contract)

    def q_delegation(self, st, delegator, validator):
        raise Gap('world %s: delegation query not modelled' % self.contract)

    def q_smart(self, st, addr, msg, target_ty, crate):
        raise Gap('world %s: smart query %r not modelled' % (self.contract, msg))

    def q_all_validators(self, st):
        raise Gap('world %s: the chain\'s validator set is not modelled' % self.contract)

    # ------------------------------------------------------------------ running
    def env(self):
        return self.mk.env(self.now, self.self_addr, self.height)

    def entry(self, name):
        d = self.I.crates[self.crate]
        for cand in ('contract::' + name, name):
            if cand in d:
                return d[cand]
        raise Gap('entry point %s not found in %s' % (name, self.crate))

    def execute(self, msg, sender, funds=()):
        I = self.I
        info = self.mk.info(sender, funds)
        for st2, res in I.call_fn(self.st, self.entry('execute'), [self.mk.deps(True), self.env(), info, msg]):
            self.ctx.ob.paths += 1
            yield st2, res

    def instantiate(self, msg, sender, funds=()):
        I = self.I
        info = self.mk.info(sender, funds)
        for st2, res in I.call_fn(self.st, self.entry('instantiate'), [self.mk.deps(True), self.env(), info, msg]):
            self.ctx.ob.paths += 1
            yield st2, res

    def query(self, st, msg):
        I = self.I
        for st2, res in I.call_fn(st, self.entry('query'), [self.mk.deps(False), self.env(), msg]):
            yield st2, res

    def messages(self, st, res):
        from checks.hubmodel import decode_msg
        resp = res.fields[0]
        return [decode_msg(self.I, st, sm.fields[1]) for sm in resp.fields[0].items]


def is_ok(res):
    return (not isinstance(res, Panic)) and res.vname == 'Ok'


def is_err(res):
    return (not isinstance(res, Panic)) and res.vname == 'Err'


def has_vec_field(W, enum_ty, vname, crate=None):
    td = W.I.types.lookup(enum_ty, crate or W.crate)
    vn, vk, vf = td.variants[td.variant_index(vname)]
    return any('Vec<' in fty for _, fty in vf)


def sym_msg(W, enum_ty, vname, crate=None, prefix='m', overrides=None, veclen=1):
    """a message of the given variant with every field symbolic (vec fields: the given length)."""
    I = W.I
    from smir.symval import SymCtx

    class Opts(SymCtx):
        vec_len = veclen
    td = I.types.lookup(enum_ty, crate or W.crate)
    vi = td.variant_index(vname)
    vn, vk, vf = td.variants[vi]
    fields = []
    for i, (fname, fty) in enumerate(vf):
        if overrides and fname in overrides:
            fields.append(overrides[fname])
        else:
            fields.append(fresh_value(I, W.st, fty, td.crate, '%s_%s_%s' % (prefix, vn, fname if fname else i), 0, Opts))
    return Agg(td.name, fields, vi, vn, td=td)


# ---------------------------------------------------------------------- replay scenario of a world
def raw_scenario(W, entry, msg, sender, funds=(), querier=None, steps=None):
    """register a generic ('raw') replay scenario for this world: storage as built, one entry-point call."""
    from smir import tojson, rawstore
    RT = rawstore.RawTemplate(W.I, W.contract, W.crate)
    RT.add_store(W.st.stores[W.crate])
    T = RT.T
    Tm = tojson.Templ(W.I, W.crate)       # messages: addresses stay human strings
    Tm.exprs = T.exprs
    Tm.n = 1000
    info = None
    if steps is None:
        info = {'sender': Tm.string(sender), 'funds': [{'denom': Tm.string(c.fields[0]), 'amount': Tm.value(c.fields[1])} for c in funds]}
    scn = {'kind': 'raw', 'contract': W.contract, 'storage': {'$raw_storage': RT.to_json()},
           'env': {'time': Tm.value(W.now), 'height': Tm.value(W.height), 'contract': Tm.string(W.self_addr)},
           'querier': querier(Tm) if querier else {}}
    if steps is not None:
        scn['steps'] = steps(Tm)
    else:
        scn['entry'] = entry
        scn['info'] = info
        scn['msg'] = Tm.value(msg)
    T.exprs.update(Tm.exprs)

    def dynamic(st):
        """storage entries created lazily on this path (initial versions)"""
        from smir import tojson as tj
        RT2 = rawstore.RawTemplate(W.I, W.contract, W.crate)
        RT2.T.n = 5000

        class _S:
            entries = [ev[5] for ev in st.log if ev[0] == 'lazy' and ev[1] == W.crate]
        RT2.add_store(_S)
        return RT2.items, RT2.T.exprs
    W.ctx.set_scenario(T, scn, dynamic if W.st.stores[W.crate].open_default else None)
    return scn


# ---------------------------------------------------------------------- the `migrate` entry point as a step of every history
MIGRATE_CLAIM = ('a contract migration (the `migrate` entry point) is a step of the history like any other: on the current tree '
                 'it changes no stored item and sends nothing, so every inductive invariant carries over unchanged')


def migrate_frame(ctx, W, crate, msg_ty, msg_crate=None, querier=None, key='migrate:frame'):
    """run the real `migrate` entry point from the world's symbolic state; claim: every write leaves the item as it was and
    the response carries no message.  Returns the number of Ok paths."""
    from smir.symval import fresh_value
    from smir.env import Entry
    I = W.I
    fn = I.crates[crate].get('contract::migrate') or I.crates[crate].get('migrate')
    if fn is None:
        raise Gap('no contract::migrate in ' + crate)
    msg = fresh_value(I, W.st, msg_ty, msg_crate or crate, 'mig')
    sender = StrV(z3.Int('mig_sender'))
    W.mv['mig_sender'] = sender.id
    raw_scenario(W, 'migrate', msg, sender, querier=querier)
    n = 0
    for st, res in I.call_fn(W.st, fn, [W.mk.deps(True), W.env(), msg]):
        W.ctx.ob.paths += 1
        if not is_ok(res):
            continue
        n += 1
        resp = res.fields[0]
        if len(resp.fields[0].items) > 0:
            ctx.infeasible(st, MIGRATE_CLAIM + ' (a message is sent)', key, W.mv)
        for ev in st.log:
            if ev[0] != 'write':
                continue
            old, new = ev[4], ev[5]
            if not isinstance(old, Entry) or not isinstance(new, Entry):
                ctx.infeasible(st, MIGRATE_CLAIM + ' (a new key %s is written)' % (ev[2],), key, W.mv)
                continue
            if new.val is None or old.val is None:
                same = (new.val is None and old.val is None)
            else:
                same = I.summ.struct_eq(st, old.val, new.val)
            pres = eqv(old.present, new.present)
            ctx.require(st, z3_and(same, pres), MIGRATE_CLAIM + ' (item %s)' % (ev[2],), key, W.mv)
    ctx.need_witness('migrate Ok paths', n > 0)
    if n:
        ctx.witness_found('migrate entry point explored (%d Ok paths)' % n)
    return n


def migrate_oracle(scn, out):
    """real run: the storage after `migrate` equals the storage before, and no message is sent."""
    import base64, json as js
    res = out.get('result', {})
    if 'ok' not in res:
        return []
    pre = {k_: v_ for k_, v_ in scn['storage']}
    post = {k_: v_ for k_, v_ in out.get('storage', [])}
    def same(a, b):
        if a == b:
            return True
        if a is None or b is None:
            return False
        try:      # the same JSON value written with another spelling (key order, spacing) is the same item
            return js.loads(base64.b64decode(a)) == js.loads(base64.b64decode(b))
        except Exception:   # noqa
            return False
    ch = sorted(base64.b64decode(k_) for k_ in set(pre) | set(post) if not same(pre.get(k_), post.get(k_)))
    bad = []
    if ch:
        bad.append('migrate changed storage items %r' % ch[:6])
    if res['ok'].get('messages'):
        bad.append('migrate sends messages %s' % str(res['ok']['messages'])[:200])
    return bad


class ClaimFilter:
    """view of a check context that keeps only the claims a property is about when it borrows another property's obligation
    (the world, the paths and the replay stay the borrowed ones; the claims left out are decided by the check that owns them)."""

    def __init__(self, ctx, keep):
        object.__setattr__(self, '_c', ctx)
        object.__setattr__(self, '_keep', keep)

    def __getattr__(self, n):
        return getattr(self._c, n)

    def __setattr__(self, n, v):
        setattr(self._c, n, v)

    def require(self, st, prop, claim, key='', model_vars=None, assume=()):
        if self._keep(key):
            self._c.require(st, prop, claim, key, model_vars, assume)

    def require_all(self, st, claims, model_vars=None, assume=()):
        cl = [c for c in claims if self._keep(c[2])]
        if cl:
            self._c.require_all(st, cl, model_vars, assume)

    def infeasible(self, st, claim, key='', model_vars=None, assume=()):
        if self._keep(key):
            self._c.infeasible(st, claim, key, model_vars, assume)
