# C11  Pause blocks every state-changing path except the owner's unpause
import z3
from smir.values import *   # noqa
from smir.env import Entry
from smir.framework import vars_of
from checks.generic import sym_msg, has_vec_field, raw_scenario, is_ok, is_err
from checks.hubmodel import *   # noqa

CRATES = ['basset_sei_hub']
BOUNDS = {'quick': {'legacy wait-list entries': '0..2', 'vector-typed message fields': 'length 0..1', 'history / wait-list entries for queries': '1 batch, 1 claimant entry'},
          'thorough': {'legacy wait-list entries': '0..2', 'vector-typed message fields': 'length 0..2'}}
ASSUMPTIONS = ['A-ADDR', 'a rejected message changes nothing (execution model, DESIGN 3.2)', 'E3 configuration']
OUTSIDE = ['MigrateUnbondWaitList with more than 2 legacy entries']
MSG = 'basset::hub::ExecuteMsg'


def variants(I):
    td = I.types.lookup(MSG, HUB)
    return [v[0] for v in td.variants]


def legacy_entries(W, n):
    out = []
    for i in range(n):
        out.append(Entry(('B', b'wait'), (('s', W.I.fresh('legacy_addr%d' % i)), ('n', W.iv('legacy_batch%d' % i, 0, 2 ** 32))),
                         U128(W.iv('legacy_amt%d' % i, 0, CAP)), True))
    return out


def blocked(variant):
    def ob(ctx):
        lens = [1]
        W0 = HubWorld(ctx)
        if has_vec_field(W0, MSG, variant, HUB):
            lens = [0, 1] if ctx.tier == 'quick' else [0, 1, 2]
        n = 0
        for vl in lens:
            W = HubWorld(ctx, n_validators=1, n_delegations=1)
            W.paused = True
            W.install()
            sender = StrV(z3.Int('sender'))
            W.mv['sender'] = sender.id
            msg = sym_msg(W, MSG, variant, HUB, veclen=vl)
            funds = [W.mk.coin(W.iv('funds_amount', 0, CAP), W.denom)]
            raw_scenario(W, 'execute', msg, sender, funds, querier=hub_querier_template(W))
            for st, res in W.execute(msg, sender, funds):
                n += 1
                if is_ok(res):
                    ctx.infeasible(st, 'paused hub accepts %s' % variant, 'paused:%s' % variant, W.mv)
        ctx.need_witness('paths explored', n > 0)
        ctx.ob.bounds = {'vector lengths': lens}
    return ob


PAUSE_TEXT = 'the contract is temporarily paused'


def unpaused(variant):
    """unpausing restores the pre-pause behaviour: with the stored flag absent (None, as an UpdateParams that omits it leaves
    it) or Some(false) no message is turned away by the pause gate"""
    def ob(ctx):
        W = HubWorld(ctx, n_validators=1, n_delegations=1)
        W.paused = SymEnum(W.iv('paused_tag', 0, 1), (NONE, some(False)))
        W.install()
        I = W.I
        pause_id = I.intern(PAUSE_TEXT)
        sender = StrV(z3.Int('sender'))
        W.mv['sender'] = sender.id
        msg = sym_msg(W, MSG, variant, HUB, veclen=1)
        funds = [W.mk.coin(W.iv('funds_amount', 0, CAP), W.denom)]
        raw_scenario(W, 'execute', msg, sender, funds, querier=hub_querier_template(W))
        n = 0
        for st, res in W.execute(msg, sender, funds):
            n += 1
            if is_err(res):
                e = res.fields[0]
                mid = e.fields[0].id if (isinstance(e, Agg) and e.fields and isinstance(e.fields[0], StrV)) else None
                if mid == pause_id:
                    ctx.infeasible(st, 'a hub that is not paused (flag absent or false) turns %s away as paused' % variant, 'unpaused:%s' % variant, W.mv)
        ctx.need_witness('paths explored', n > 0)
    return ob


def ob_update_params_paused(ctx):
    """while paused: UpdateParams only from the owner; unpausing impossible while legacy entries remain."""
    nwit = 0
    for nleg in (0, 1, 2):
        W = HubWorld(ctx, n_validators=1, n_delegations=1)
        W.paused = True
        W.install(extra_entries=legacy_entries(W, nleg))
        sender = StrV(z3.Int('sender'))
        W.mv['sender'] = sender.id
        msg = sym_msg(W, MSG, 'UpdateParams', HUB)
        raw_scenario(W, 'execute', msg, sender, querier=hub_querier_template(W))
        pz = W.mk.vfield(msg, MSG, 'paused', HUB)       # SymEnum Option<bool>
        stays_paused = z3.And(pz.tag == 1, pz.alts[1].fields[0])
        for st, res in W.execute(msg, sender):
            if not is_ok(res):
                continue
            cl = [(sender.id == W.owner.id, 'UpdateParams of a paused hub only from the owner', 'update_params:owner')]
            if nleg > 0:
                cl.append((stays_paused, 'the hub cannot be unpaused while legacy wait-list entries remain', 'update_params:legacy'))
            ctx.require_all(st, cl, W.mv)
            ctx.witness('owner unpauses with %d legacy entries' % nleg, st, [z3.Not(stays_paused)], W.mv, expect='ok')
            # transparency: only the parameters item is written
            for ev in st.log:
                if ev[0] == 'write' and ev[2] != ('K', b'\x00\x0bparameteres'):
                    ctx.infeasible(st, 'UpdateParams writes something else than the parameters (a pause / unpause cycle alters nothing else)', 'update_params:frame', W.mv)
    ctx.expect_witness('unpause possible without legacy entries', 'owner unpauses with 0 legacy')


def ob_migrate(ctx):
    """MigrateUnbondWaitList (allowed while paused) clears the pause flag only when no legacy entry remains."""
    n = 0
    for nleg in (0, 1, 2):
        for limit in (NONE, some(1)):
            W = HubWorld(ctx, n_validators=1, n_delegations=1)
            W.paused = True
            W.install(extra_entries=legacy_entries(W, nleg))
            msg = W.msg('MigrateUnbondWaitList', limit=limit)
            sender = StrV(z3.Int('sender'))
            W.mv['sender'] = sender.id
            raw_scenario(W, 'execute', msg, sender, querier=hub_querier_template(W))
            for st, res in W.execute(msg, sender):
                if not is_ok(res):
                    continue
                n += 1
                p = W.item(st, b'\x00\x0bparameteres')
                pz = W.mk.field(p, 'basset::hub::Parameters', 'paused', HUB)
                left = [e for e in st.stores[HUB].entries if e.fam == ('B', b'wait') and e.present is not False]
                unpaused = not (pz.variant == 1 and pz.fields[0] is True)
                if unpaused and left:
                    ctx.infeasible(st, 'pause flag cleared while legacy wait-list entries remain', 'migrate:legacy', W.mv)
    ctx.need_witness('migrate Ok paths', n > 0)
    ctx.witness_found('migrate explored with 0..2 legacy entries, limit None/1')


def ob_queries(ctx):
    """queries keep working while paused and do not depend on the pause flag (the flag is never read by a query
    other than as part of the Parameters value it returns)."""
    QM = 'basset::hub::QueryMsg'
    td_names = None
    n = 0
    for vname in ['Config', 'State', 'CurrentBatch', 'WithdrawableUnbonded', 'Parameters', 'UnbondRequests', 'AllHistory', 'NewOwner']:
        W = HubWorld(ctx, n_validators=1, n_delegations=1)
        p = z3.Bool('paused_flag')
        W.mv['paused_flag'] = p
        W.paused = p
        user = W.I.S('user_a')
        h = W.add_history('1', released=None)
        W.add_wait('1', user, h['id'])
        W.install()
        if vname in ('WithdrawableUnbonded', 'UnbondRequests'):
            msg = W.mk.variant(QM, vname, crate=HUB, address=user)
        elif vname == 'AllHistory':
            msg = W.mk.variant(QM, vname, crate=HUB, start_from=NONE, limit=NONE)
        else:
            msg = W.mk.variant(QM, vname, crate=HUB)
        ok_paths = 0
        raw_scenario(W, 'query', msg, user, querier=hub_querier_template(W))
        for st, res in W.query(W.st, msg):
            ctx.ob.paths += 1
            n += 1
            names = set()
            for c in st.pc:
                names |= vars_of(c)
            if 'paused_flag' in names:
                # non-interference: no path of a query may depend on the flag; a feasible one is replayed with both values
                ctx.infeasible(st, 'query %s branches on the pause flag' % vname, 'query:%s:reads_pause' % vname, W.mv)
            if is_ok(res):
                ok_paths += 1
                if vname != 'Parameters' and 'paused_flag' in str(res):
                    ctx.infeasible(st, 'query %s result depends on the pause flag' % vname, 'query:%s:result' % vname, W.mv)
                ctx.witness('query %s succeeds while paused' % vname, st, [p], W.mv)
        ctx.need_witness('query %s has an Ok path' % vname, ok_paths > 0)
        ctx.expect_witness('query %s works while paused' % vname, 'query %s succeeds while paused' % vname)
    # all query variants are covered
    I = ctx.interp()
    td = I.types.lookup(QM, HUB)
    for v in td.variants:
        if v[0] not in ['Config', 'State', 'CurrentBatch', 'WithdrawableUnbonded', 'Parameters', 'UnbondRequests', 'AllHistory', 'NewOwner']:
            raise Gap('unclassified hub query variant ' + v[0])


def ob_enumeration(ctx):
    I = ctx.interp()
    vs = variants(I)
    known = set(BLOCKED + ['UpdateParams', 'MigrateUnbondWaitList'])
    for v in vs:
        if v not in known:
            raise Gap('hub ExecuteMsg variant %s is not covered by the pause check' % v)
    ctx.ob.paths += 1
    ctx.witness_found('all %d variants covered' % len(vs))
    ctx.sample({'blocked_while_paused': BLOCKED, 'allowed': ['UpdateParams (owner)', 'MigrateUnbondWaitList']})


BLOCKED = ['UpdateConfig', 'SetOwner', 'AcceptOwnership', 'Bond', 'BondForStSei', 'BondRewards', 'UpdateGlobalIndex', 'WithdrawUnbonded',
           'CheckSlashing', 'Receive', 'ClaimAirdrop', 'SwapHook', 'RedelegateProxy']
OBLIGATIONS = [('enumeration', ob_enumeration)] + [('blocked_%s' % v, blocked(v)) for v in BLOCKED] + [('unpaused_%s' % v, unpaused(v)) for v in BLOCKED] + \
    [('update_params_while_paused', ob_update_params_paused), ('migrate_wait_list', ob_migrate), ('queries', ob_queries)]


def replay_query_pair(v, run_scenario):
    """a query is run on the real contract twice, from the same storage with the pause flag set and cleared: the two
    answers must be identical (and the one of the Parameters query identical up to the flag itself)"""
    import base64, json as js, copy
    from smir import tojson
    tojson.set_string_names({int(k_): s_ for k_, s_ in v.get('strings', {}).items()})
    scn = tojson.instantiate(v['scenario_t'], v['model'])
    outs = []
    for flag in (True, False):
        s2 = copy.deepcopy(scn)
        for kv in s2['storage']:
            if base64.b64decode(kv[0]) == b'\x00\x0bparameteres':
                pj = js.loads(base64.b64decode(kv[1]))
                pj['paused'] = flag
                kv[1] = base64.b64encode(js.dumps(pj).encode()).decode()
        o = run_scenario(s2)
        if 'error' in o:
            return {'status': 'unavailable', 'detail': o['error']}
        outs.append(o)
    r1, r2 = outs[0].get('result'), outs[1].get('result')
    if 'parameters' in scn['msg'] and isinstance(r1, dict) and isinstance(r2, dict) and 'ok' in r1 and 'ok' in r2:
        r1, r2 = dict(r1['ok'], paused=None), dict(r2['ok'], paused=None)
    bad = [] if r1 == r2 else ['the query answers differently while paused: %s / not paused: %s' % (str(r1)[:200], str(r2)[:200])]
    return {'status': 'reproduced' if bad else 'mismatch', 'scenario': scn, 'output': {'paused': outs[0], 'unpaused': outs[1]}, 'oracle': bad,
            'detail': '' if bad else 'real code answers the same with the flag set and cleared'}


REPLAY = {'queries': replay_query_pair}


def ORACLE(v, scn, out):
    key = v.get('key') or ''
    res = out.get('result', {})
    if key.startswith('unpaused:'):
        return ['turned away as paused: ' + str(res)[:200]] if PAUSE_TEXT in str(res) else []
    if key.startswith('paused:'):
        return ['accepted while paused: ' + str(res)[:200]] if 'ok' in res else []
    if key == 'update_params:owner':
        return ['accepted from non-owner'] if ('ok' in res and scn['info']['sender'] != 'owner_addr') else []
    if key == 'update_params:frame':
        import base64
        if 'ok' not in res:
            return []
        pre = {k_: v_ for k_, v_ in scn['storage']}
        post = {k_: v_ for k_, v_ in out.get('storage', [])}
        pk = base64.b64encode(b'\x00\x0bparameteres').decode()
        ch = [base64.b64decode(k_) for k_ in set(pre) | set(post) if k_ != pk and pre.get(k_) != post.get(k_)]
        return ['UpdateParams changed storage items %r' % ch] if ch else []
    if key == 'migrate:legacy':
        import base64, json as js
        from smir import rawstore
        if 'ok' not in res:
            return []
        left, paused = 0, None
        for k, val in out.get('storage', []):
            kb = base64.b64decode(k)
            if kb.startswith(rawstore.lp(b'wait')):
                left += 1
            if kb == b'\x00\x0bparameteres':
                paused = js.loads(base64.b64decode(val)).get('paused')
        return ['%d legacy entries remain but paused=%r' % (left, paused)] if left and paused is not True else []
    if key == 'update_params:legacy':
        body = scn['msg'].get('update_params', {})
        return ['unpaused with legacy entries'] if ('ok' in res and body.get('paused') is not True) else []
    return None

from checks import migrate as _migrate
_migrate.attach(globals(), 'hub')
