# C13  Removing a validator moves its whole stake to the remaining ones
import z3
from smir.values import *   # noqa
from checks.generic import *   # noqa
from checks.c10 import RegistryWorld
from checks.hubmodel import HubWorld, HUB, hub_querier_template, effects

CRATES = ['basset_sei_validators_registry', 'basset_sei_hub']
BOUNDS = {'quick': {'registry size': '1..3 validators', 'RedelegateProxy entries at the hub': '0..2 and 8'}, 'thorough': {'registry size': '1..4 validators', 'RedelegateProxy entries at the hub': '0..3, 8, 12'}}
ASSUMPTIONS = ['A-ADDR', 'E4: the staking module reports the hub\'s real delegations; can_redelegate as reported by the chain',
               'a Redelegate staking message moves exactly its amount between validators (environment model, DESIGN 3.4)']
OUTSIDE = ['registries larger than the bound', 'the chain-side effect of UpdateGlobalIndex in the same transaction is C19']


def ob_remove(n):
    def ob(ctx):
        W = RegistryWorld(ctx, n)
        W.install()
        I = W.I
        S = I.summ
        target = StrV(z3.Int('removed_id'))
        W.mv['removed_id'] = target.id
        msg = W.mk.variant('msg::ExecuteMsg', 'RemoveValidator', crate=W.crate, address=target)

        has_d = W.bv('removed_has_delegation')

        def q(T):
            return {'delegations': [{'validator': T.string(v), 'amount': T.value(U128(a)), 'denom': 'usei'} for v, a in zip(W.vals, W.del_amounts)],
                    'full_delegations': [{'validator': '*', 'present': T.leaf(has_d, 'bool'), 'amount': T.value(U128(W.removed_amount)),
                                          'can_redelegate': T.value(U128(W.can_redelegate))}],
                    'chain_validators': [T.string(v) for v in W.chain_vals]}
        raw_scenario(W, 'execute', msg, W.owner, querier=q)
        nok = 0
        registered = z3.Or(*[target.id == v.id for v in W.vals])
        for st, res in W.execute(msg, W.owner):
            if not is_ok(res):
                # failure only when it would remove the last validator
                ctx.require(st, z3.And(registered, z3.BoolVal(n == 1)) if n == 1 else z3.BoolVal(False),
                            'RemoveValidator by the owner fails only when it would remove the last validator', 'remove:fails', W.mv)
                continue
            nok += 1
            left = [e for e in W.map_entries(st, 'validators_registry') if e.present is not False]
            msgs = W.messages(st, res)
            cl = [(z3.And(*[e.key[0][1] != target.id for e in left]) if left else True, 'the validator is no longer registered', 'remove:gone'),
                  (len(left) >= 1, 'never removes the last validator', 'remove:last')]
            has_del = W.mv['removed_has_delegation']
            can = W.can_redelegate >= W.removed_amount
            if msgs:
                m0 = msgs[0]
                okshape = (len(msgs) == 2 and m0['kind'] == 'wasm_execute' and isinstance(m0['msg'], Agg) and m0['msg'].vname == 'RedelegateProxy'
                           and msgs[1]['kind'] == 'wasm_execute' and isinstance(msgs[1]['msg'], Agg) and msgs[1]['msg'].vname == 'UpdateGlobalIndex')
                cl.append((okshape, 'exactly one RedelegateProxy followed by UpdateGlobalIndex', 'remove:shape'))
                if okshape:
                    rp = m0['msg']
                    reds = I.val(st, rp.fields[1]).items
                    total = 0
                    for r in reds:
                        dst, coin = r.fields[0], r.fields[1]
                        amt = coin.fields[1].fields[0]
                        total = total + amt
                        cl.append((z3.Or(*[z3.And(S.struct_eq(st, dst, StrV(e.key[0][1])) if not isinstance(S.struct_eq(st, dst, StrV(e.key[0][1])), bool)
                                                  else z3.BoolVal(S.struct_eq(st, dst, StrV(e.key[0][1])))) for e in left]),
                                   'every destination is still registered', 'remove:dst_registered'))
                        cl.append((z3.Not(S.struct_eq(st, dst, target)) if not isinstance(S.struct_eq(st, dst, target), bool) else (not S.struct_eq(st, dst, target)),
                                   'nothing is redelegated back to the removed validator', 'remove:dst_not_removed'))
                        cl.append((amt >= 1, 'no zero-amount redelegation', 'remove:nonzero'))
                    cl += [(S.struct_eq(st, rp.fields[0], target), 'redelegation source is the removed validator', 'remove:src'),
                           (total == W.removed_amount, 'the entire delegation on the removed validator is redelegated', 'remove:whole'),
                           (z3.And(m0['contract'].id == W.hub.id, msgs[1]['contract'].id == W.hub.id), 'messages go to the hub', 'remove:target'),
                           (z3.And(has_del, can), 'redelegation only when a delegation exists and the chain allows it', 'remove:when')]
            else:
                cl.append((z3.Or(z3.Not(has_del), z3.Not(can), W.removed_amount == 0), 'a redelegatable delegation is never left behind', 'remove:left_behind'))
            ctx.require_all(st, cl, W.mv)
            ctx.witness('remove with redelegation (n=%d)' % n, st, [z3.BoolVal(len(msgs) == 2)], W.mv)
            ctx.witness('remove an unregistered address (n=%d)' % n, st, [z3.Not(registered)], W.mv)
        if n > 1:
            ctx.need_witness('Ok path (n=%d)' % n, nok > 0)
            ctx.expect_witness('redelegation region (n=%d)' % n, 'remove with redelegation')
        ctx.ob.bounds = {'registry size': n}
    return ob


def ob_add_validator(n):
    """the registry invariant RemoveValidator relies on: a validator is stored under its own address (the key RemoveValidator and
    Redelegations look it up by), and adding one touches no other entry"""
    def ob(ctx):
        W = RegistryWorld(ctx, n)
        W.install()
        I = W.I
        S = I.summ
        addr = W.sv('new_validator')
        msg = W.mk.variant('msg::ExecuteMsg', 'AddValidator', crate=W.crate, validator=Agg('Validator', (addr,)))

        def q(T):
            return {'delegations': [{'validator': T.string(v), 'amount': T.value(U128(a)), 'denom': 'usei'} for v, a in zip(W.vals, W.del_amounts)]}
        nok = 0
        for sender in (W.owner, W.hub):
            raw_scenario(W, 'execute', msg, sender, querier=q)
            for st, res in W.execute(msg, sender):
                if not is_ok(res):
                    ctx.infeasible(st, 'AddValidator by the owner / the hub succeeds', 'add:fails', W.mv)
                    continue
                nok += 1
                ents = [e for e in W.map_entries(st, 'validators_registry') if e.present is not False]
                hit = [z3.And(e.key[0][1] == addr.id, S.struct_eq(st, e.val.fields[0], addr)) if not isinstance(S.struct_eq(st, e.val.fields[0], addr), bool)
                       else (e.key[0][1] == addr.id if S.struct_eq(st, e.val.fields[0], addr) else False) for e in ents]
                hit = [h for h in hit if h is not False]
                cl = [(z3.Or(*hit) if hit else False, 'the validator is registered under its own address', 'add:key')]
                for e in ents:
                    ok_e = S.struct_eq(st, e.val.fields[0], StrV(e.key[0][1]))
                    cl.append((ok_e, 'every registry entry is keyed by the address it stores', 'add:keyed'))
                cl.append((len(ents) <= n + 1 and len(ents) >= n, 'no other entry is added or removed', 'add:frame'))
                ctx.require_all(st, [c for c in cl if c[0] is not True], W.mv)
        ctx.need_witness('AddValidator Ok path', nok > 0)
        ctx.witness_found('AddValidator explored with %d registered validators' % n)
    return ob


def ob_hub_proxy(ctx):
    """hub RedelegateProxy from the registry: one StakingMsg::Redelegate per entry, same src/dst/amount, no state change."""
    for nred in ((0, 1, 2, 8) if ctx.tier == 'quick' else (0, 1, 2, 3, 8, 12)):
        W = HubWorld(ctx, n_validators=1, n_delegations=1)
        W.install()
        I = W.I
        S = I.summ
        src = StrV(z3.Int('src_id'))
        reds = []
        for i in range(nred):
            reds.append(Agg('()', (StrV(z3.Int('dst%d' % i)), W.mk.coin(W.iv('red_amt%d' % i, 0, CAP), W.denom))))
        msg = W.msg('RedelegateProxy', src_validator=src, redelegations=VecV(reds))
        W.mv['src_id'] = src.id
        for i in range(nred):
            W.mv['dst%d' % i] = reds[i].fields[0].id
        raw_scenario(W, 'execute', msg, W.registry, querier=hub_querier_template(W))
        n = 0
        for st, res in W.execute(msg, W.registry):
            if isinstance(res, Panic) or res.vname != 'Ok':
                ctx.infeasible(st, 'RedelegateProxy from the registry succeeds', 'proxy:fails', W.mv)
                continue
            n += 1
            e = effects(W, st, res)
            cl = [(len(e.redelegate_msgs) == nred and len(e.msgs) == nred, 'one Redelegate message per entry and nothing else', 'proxy:count'),
                  (len([ev for ev in st.log if ev[0] == 'write']) == 0, 'books unchanged (no storage write)', 'proxy:frame')]
            for r, m in zip(reds, e.redelegate_msgs):
                cl.append((z3.And(m['src'].id == src.id, m['dst'].id == r.fields[0].id, m['amount'] == r.fields[1].fields[1].fields[0]),
                           'entry forwarded 1:1', 'proxy:forward'))
            ctx.require_all(st, cl, W.mv)
        ctx.need_witness('proxy Ok path (%d entries)' % nred, n > 0)
    ctx.witness_found('proxy explored with 0..2 and 8 entries (thorough: 0..3, 8, 12)')


OBLIGATIONS = [('remove_n%d' % n, ob_remove(n)) for n in (1, 2, 3, 4)] + [('hub_redelegate_proxy', ob_hub_proxy), ('add_validator_n1', ob_add_validator(1))]


def _bond_registered(ctx):
    """subsequent bonds are delegated only to registered validators (and in full): C02's bond obligation with two validators"""
    from checks.c02 import mk as mk2
    return mk2('bond', 2, 1)(ctx)


def _replay_bond(v, run_scenario):
    from checks.c02 import replay_any as r2
    return r2(v, run_scenario)


OBLIGATIONS.append(('bonds_only_to_registered_v2', _bond_registered))
REPLAY = {'bonds_only_to_registered_v2': _replay_bond}


def tier_filter(name, tier):
    return tier == 'thorough' or name != 'remove_n4'


def ORACLE(v, scn, out):
    import base64, json as js
    from smir import rawstore
    key = v.get('key') or ''
    res = out.get('result', {})
    what = key.split(':')[1]
    if key.startswith('add:'):
        if what == 'fails':
            return [] if 'ok' in res else ['AddValidator failed: ' + str(res)[:200]]
        if 'ok' not in res:
            return []
        from smir import rawstore as rs_
        rp_ = rs_.lp(b'validators_registry')
        post_ = {base64.b64decode(k): js.loads(base64.b64decode(val)) for k, val in out.get('storage', []) if base64.b64decode(k).startswith(rp_)}
        pre_ = {base64.b64decode(k) for k, val in scn.get('storage', []) if base64.b64decode(k).startswith(rp_)}
        new_addr = scn['msg']['add_validator']['validator']['address']
        bad = []
        if what == 'key' and post_.get(rp_ + new_addr.encode(), {}).get('address') != new_addr:
            bad.append('validator %s is not stored under its own address: keys %r' % (new_addr, [k[len(rp_):] for k in post_]))
        if what == 'keyed':
            for k, val in post_.items():
                if k[len(rp_):].decode('latin-1') != val.get('address'):
                    bad.append('entry %r stores address %r' % (k[len(rp_):], val.get('address')))
        if what == 'frame' and not (set(post_) >= pre_ and len(post_) <= len(pre_) + 1):
            bad.append('other entries changed')
        return bad
    if key.startswith('proxy:'):
        if what == 'fails':
            return [] if 'ok' in res else ['RedelegateProxy from the registry failed: ' + str(res)[:200]]
        if 'ok' not in res:
            return []
        body = scn['msg']['redelegate_proxy']
        got = [m_['msg']['staking']['redelegate'] for m_ in res['ok']['messages'] if 'staking' in m_['msg'] and 'redelegate' in m_['msg']['staking']]
        want = [{'src_validator': body['src_validator'], 'dst_validator': d_, 'amount': c_} for d_, c_ in body['redelegations']]
        bad = []
        if what in ('count', 'forward') and (got != want or len(res['ok']['messages']) != len(want)):
            bad.append('staking messages %r for entries %r' % (got, want))
        if what == 'frame' and sorted(map(tuple, scn['storage'])) != sorted(map(tuple, out.get('storage', []))):
            bad.append('storage changed')
        return bad
    post = {base64.b64decode(k): base64.b64decode(val) for k, val in out.get('storage', [])}
    pre = {base64.b64decode(k): base64.b64decode(val) for k, val in scn.get('storage', [])}
    rp = rawstore.lp(b'validators_registry')
    reg0 = [k[len(rp):].decode() for k in pre if k.startswith(rp)]
    reg1 = [k[len(rp):].decode() for k in post if k.startswith(rp)]
    target = scn['msg']['remove_validator']['address']
    if what == 'fails':
        if 'ok' in res:
            return []
        return [] if (target in reg0 and len(reg0) == 1) else ['RemoveValidator failed: ' + str(res)[:200]]
    if 'ok' not in res:
        return []
    bad = []
    msgs = res['ok']['messages']
    if what == 'gone' and target in reg1:
        bad.append('validator still registered')
    if what == 'last' and not reg1:
        bad.append('registry emptied')
    reds = []
    has_proxy = False
    if msgs:
        inner = msgs[0]['msg']['wasm']['execute']['msg']
        if 'redelegate_proxy' in inner:
            has_proxy = True
            reds = inner['redelegate_proxy']['redelegations']
            if what == 'src' and inner['redelegate_proxy']['src_validator'] != target:
                bad.append('wrong source')
    total = sum(int(c['amount']) for _, c in reds)
    if what in ('dst_registered', 'dst_not_removed'):
        for d, c in reds:
            if d not in reg1 or d == target:
                bad.append('redelegation to %s which is not a remaining registered validator' % d)
    if what == 'nonzero' and any(int(c['amount']) == 0 for _, c in reds):
        bad.append('zero redelegation')
    fd = (scn['querier'].get('full_delegations') or [{}])[0]
    has = bool(fd.get('present', False))
    amount, can = int(fd.get('amount', 0)), int(fd.get('can_redelegate', 0))
    if what == 'whole' and has_proxy and total != amount:
        bad.append('redelegates %d of the %d delegated on the removed validator' % (total, amount))
    if what == 'when' and has_proxy and not (has and can >= amount):
        bad.append('redelegation although the chain reports delegation=%r can_redelegate=%d amount=%d' % (has, can, amount))
    if what == 'left_behind' and not msgs and has and can >= amount and amount > 0:
        bad.append('a redelegatable delegation of %d is left on the removed validator' % amount)
    if what == 'shape' and msgs:
        inner = [m_['msg']['wasm']['execute']['msg'] for m_ in msgs if 'wasm' in m_['msg']]
        if not (len(msgs) == 2 and len(inner) == 2 and 'redelegate_proxy' in inner[0] and 'update_global_index' in inner[1]):
            bad.append('messages: %r' % [list(i_.keys()) if isinstance(i_, dict) else i_ for i_ in inner])
    if what == 'target' and any(m_['msg']['wasm']['execute']['contract_addr'] != 'hub_contract' for m_ in msgs):
        bad.append('message not sent to the hub')
    return bad
