# Symbolic worlds of the two token contracts (bSei: cw20-legacy wrapper, stSei: cw20-base wrapper).
import z3
from smir.values import *   # noqa
from checks.generic import *   # noqa


class TokenWorld(World):
    def __init__(self, ctx, which):
        World.__init__(self, ctx, which)
        I = self.I
        self.which = which
        self.hub = I.S('hub_contract')
        self.dispatcher = I.S('dispatcher_contract')
        self.reward = I.S('reward_contract')
        self.marketing = I.S('marketing_addr')
        self.supply = self.iv('total_supply', 0, U128_MAX)
        if which == 'bsei':
            minter = self.mk.struct('cw20_legacy::state::MinterData', 'cw20_legacy', minter=self.mk.caddr(self.hub), cap=NONE)
            ti = self.mk.struct('cw20_legacy::state::TokenInfo', 'cw20_legacy', name=I.S('bsei'), symbol=I.S('BSEI'), decimals=6,
                                total_supply=U128(self.supply), mint=some(minter))
            self.item(b'\x00\ntoken_info', ti)
            self.item(b'\x00\x0chub_contract', self.mk.caddr(self.hub))
            self.ti_key = b'\x00\ntoken_info'
        else:
            minter = self.mk.struct('cw20_base::state::MinterData', 'cw20_base', minter=self.mk.addr(self.hub), cap=NONE)
            ti = self.mk.struct('cw20_base::state::TokenInfo', 'cw20_base', name=I.S('stsei'), symbol=I.S('STSEI'), decimals=6,
                                total_supply=U128(self.supply), mint=some(minter))
            self.item('token_info', ti)
            self.item('hub_contract', self.mk.caddr(self.hub))
            mi = self.mk.struct('MarketingInfoResponse', 'cw20', project=NONE, description=NONE, logo=NONE,
                                marketing=some(self.mk.addr(self.marketing)))
            self.item('marketing_info', mi)
            self.ti_key = b'token_info'
        self.principals = {'hub': self.hub, 'marketing': self.marketing}
        self.accounts = {}

    def install(self):
        World.install(self, open_default=True)

    def add_account(self, tag, addr, present=True):
        bal = self.iv('bal_%s' % tag, 0, U128_MAX)
        self.map_entry('balance', (('s', addr.id),), U128(bal), present)
        self.accounts[tag] = (addr, bal)
        return bal

    def add_allowance(self, tag, owner, spender):
        amt = self.iv('allow_%s' % tag, 0, U128_MAX)
        exp = self.fresh('Expiration', 'exp_%s' % tag, 'cw_utils')
        self.map_entry('allowance', (('s', owner.id), ('s', spender.id)),
                       Agg('AllowanceResponse', (U128(amt), exp)), True)
        return amt, exp

    # ------------------------------------------------------------------ querier
    def hub_config_response(self):
        mk = self.mk
        return mk.struct('basset::hub::ConfigResponse', 'basset', owner=self.I.S('hub_owner'), update_reward_index_addr=self.I.S('index_updater'),
                         reward_dispatcher_contract=some(self.dispatcher), validators_registry_contract=some(self.I.S('registry_contract')),
                         bsei_token_contract=some(self.self_addr), stsei_token_contract=some(self.I.S('stsei_token')),
                         airdrop_registry_contract=NONE, token_contract=some(self.self_addr))

    def dispatcher_config_response(self):
        return self.mk.struct('basset::dispatcher::ConfigResponse', 'basset', owner=self.I.S('d_owner'), hub_contract=self.hub,
                              bsei_reward_contract=self.reward, stsei_reward_denom=self.I.S('usei'), bsei_reward_denom=self.I.S('uusd'),
                              krp_keeper_address=self.I.S('keeper'), krp_keeper_rate=DEC(0), swap_contract=self.I.S('swap'),
                              swap_denoms=VecV(()), oracle_contract=self.I.S('oracle'))

    def q_smart(self, st, addr, msg, target_ty, crate):
        S = self.I.summ
        if isinstance(msg, Agg) and msg.ty == 'QueryMsg' and msg.vname == 'Config':
            for st2, is_hub in self.I.truth(st, S.struct_eq(st, addr, self.hub)):
                if is_hub:
                    yield st2, ok(self.hub_config_response())
                else:
                    yield st2, ok(self.dispatcher_config_response())
            return
        raise Gap('token world: smart query %r' % (msg,))

    def querier_template(self):
        def q(T):
            return {'smart': [{'contract': T.string(self.hub), 'key': 'config', 'response': T.value(self.hub_config_response(), 'basset')},
                              {'contract': T.string(self.dispatcher), 'key': 'config', 'response': T.value(self.dispatcher_config_response(), 'basset')}]}
        return q

    # ------------------------------------------------------------------ reading results
    def supply_after(self, st):
        ti = self.get_item(st, self.ti_key)
        return ti.fields[3].fields[0]

    def balance_changes(self, st):
        """list of (key terms, initial value expr (0 if absent), final value expr (0 if absent)) for all touched balance entries"""
        return self.family_changes(st, ('M', b'balance'), lambda v: v.fields[0])

    def family_changes(self, st, fam, proj):
        init = {}
        for i, e in enumerate(self.st.stores[self.crate].entries):
            pass
        # initial versions: harness entries by index + lazily created ones from the log
        base = list(self.entries)
        initial = {i: e for i, e in enumerate(base)}
        for ev in st.log:
            if ev[0] == 'lazy' and ev[2] == fam:
                initial[ev[4]] = ev[5]
        out = []
        for i, e in enumerate(st.stores[self.crate].entries):
            if e.fam != fam:
                continue
            e0 = initial.get(i)
            if e0 is None:
                v0 = 0        # created by a write to a key that was certainly absent
            else:
                p0 = e0.present
                x0 = proj(e0.val)
                v0 = x0 if p0 is True else (0 if p0 is False else z3.If(p0, x0, 0))
            p1 = e.present
            x1 = proj(e.val) if e.val is not None else 0
            v1 = x1 if p1 is True else (0 if p1 is False else z3.If(p1, x1, 0))
            out.append((e.key, v0, v1))
        return out
