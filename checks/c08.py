# C08  Unbonding time-lock holds and the batch lifecycle only moves forward
import z3
from smir.values import *   # noqa
from checks.hubmodel import *     # noqa
from checks.generic import sym_msg, has_vec_field, raw_scenario
from checks.c07 import VARIANTS, MSG

CRATES = ['basset_sei_hub']
BOUNDS = {'quick': {'batches': 'one matured or immature unreleased batch + one released batch; open batch', 'frame check': 'every ExecuteMsg variant'},
          'thorough': {}}
ASSUMPTIONS = ['E1-E4; times are u64 seconds, stored times <= current block time',
               'H3: released batches have ids <= last_processed_batch < open batch id; unreleased history ids follow last_processed']
OUTSIDE = ['owner changes of the periods between transactions (periods are symbolic in every step, so any configuration is covered)']
CONTRACTS = {'SignedInt::from_subtraction', 'Uint256*Decimal256', 'calculate_new_withdraw_rate'}


def ob_timelock(ctx):
    """a batch is released (and paid) only when its undelegation time <= now - unbonding_period"""
    W = HubWorld(ctx, n_validators=1, n_delegations=1)
    W.I.contracts_on = set(CONTRACTS)
    user = W.I.S('user_a')
    h = W.add_history('1', released=False)
    W.st.add(h['id'] == W.last_processed + 1, W.batch_id == W.last_processed + 2, h['time'] <= W.now)
    W.st.add(h['bsei_wr'] <= 10 * E, h['stsei_wr'] <= 10 * E)
    W.add_wait('1', user, h['id'])
    W.st.add(W.hub_balance >= W.prev_hub_balance)
    W.install()
    msg = W.msg('WithdrawUnbonded')
    raw_scenario(W, 'execute', msg, user, querier=hub_querier_template(W))
    n = 0
    matured = h['time'] + W.unbonding <= W.now
    for st, res in W.execute(msg, user):
        if not is_ok(res):
            continue
        n += 1
        e = effects(W, st, res)
        ctx.require(st, matured, 'no coins are paid for a batch before the unbonding period has fully elapsed since its undelegation',
                    'timelock:early_payout', W.mv)
        ctx.witness('payout exactly on the boundary second', st, [h['time'] + W.unbonding == W.now], W.mv)
    # immature batch: stays unreleased on every path (Ok or not)
    W2 = HubWorld(ctx, n_validators=1, n_delegations=1)
    W2.I.contracts_on = set(CONTRACTS)
    h2 = W2.add_history('1', released=False)
    hr = W2.add_history('r', released=True)
    W2.st.add(hr['id'] >= 1, hr['id'] <= W2.last_processed, hr['bsei_wr'] <= 10 * E, hr['stsei_wr'] <= 10 * E)
    W2.st.add(h2['id'] == W2.last_processed + 1, W2.batch_id == W2.last_processed + 2, h2['time'] <= W2.now)
    W2.st.add(h2['time'] + W2.unbonding > W2.now, h2['bsei_wr'] <= 10 * E, h2['stsei_wr'] <= 10 * E)
    user2 = W2.I.S('user_a')
    W2.add_wait('1', user2, h2['id'])
    W2.add_wait('r', user2, hr['id'])
    W2.st.add(W2.hub_balance >= W2.prev_hub_balance)
    W2.install()
    raw_scenario(W2, 'execute', W2.msg('WithdrawUnbonded'), user2, querier=hub_querier_template(W2))
    m = 0
    for st, res in W2.execute(W2.msg('WithdrawUnbonded'), user2):
        if not is_ok(res):
            continue
        m += 1
        writes = [ev for ev in st.log if ev[0] == 'write' and ev[2] == ('P', b'history_map')]
        if writes:
            ctx.infeasible(st, 'a batch that has not matured is rewritten by a withdrawal', 'timelock:immature_written', W2.mv)
        left = [e for e in st.stores[HUB].entries if e.fam == ('B', b'v2_wait') and e.present is not False]
        ctx.require(st, z3.BoolVal(len(left) == 1), 'the claim on the immature batch survives; only the released one is paid', 'timelock:immature_claim', W2.mv)
        ctx.witness('one second before maturity', st, [h2['time'] + W2.unbonding == W2.now + 1], W2.mv)
    # a matured and a younger, immature batch pending together: only the matured one is released and paid
    W3 = HubWorld(ctx, n_validators=1, n_delegations=1)
    W3.I.contracts_on = set(CONTRACTS)
    g1 = W3.add_history('1', released=False)
    g2 = W3.add_history('2', released=False)
    # the younger batch is any later undelegated batch (the batches between the two are abstracted: whether they are released
    # as well does not touch the younger one); its decimal key may sort before the matured one's
    W3.st.add(g1['id'] == W3.last_processed + 1, g2['id'] >= W3.last_processed + 2, W3.batch_id > g2['id'])
    W3.st.add(g1['time'] <= g2['time'], g2['time'] <= W3.now, g1['time'] + W3.unbonding <= W3.now, g2['time'] + W3.unbonding > W3.now)
    for g in (g1, g2):
        W3.st.add(g['bsei_wr'] <= 10 * E, g['stsei_wr'] <= 10 * E)
    user3 = W3.I.S('user_a')
    W3.add_wait('1', user3, g1['id'])
    W3.add_wait('2', user3, g2['id'])
    W3.st.add(W3.hub_balance >= W3.prev_hub_balance)
    W3.install()
    raw_scenario(W3, 'execute', W3.msg('WithdrawUnbonded'), user3, querier=hub_querier_template(W3))
    k3 = 0
    for st, res in W3.execute(W3.msg('WithdrawUnbonded'), user3):
        if not is_ok(res):
            continue
        k3 += 1
        for ev in st.log:
            if ev[0] == 'write' and ev[2] == ('P', b'history_map'):
                ctx.require(st, ev[3][0][1] != g2['id'], 'a younger batch that has not matured is not released together with a matured one', 'timelock:younger_released', W3.mv)
        left = [e for e in st.stores[HUB].entries if e.fam == ('B', b'v2_wait') and e.present is not False]
        ctx.require(st, z3.BoolVal(len(left) == 1), 'the claim on the immature batch survives; only the matured one is paid', 'timelock:younger_claim', W3.mv)
        e3 = effects(W3, st, res)
        ctx.require(st, z3.Implies(g2['id'] == W3.last_processed + 2, e3.post['last_processed'] == W3.last_processed + 1),
                    'last processed batch advances over the matured batch only', 'timelock:younger_last', W3.mv)
        ctx.witness('matured + immature pending together', st, [g2['time'] + W3.unbonding == W3.now + 1], W3.mv, expect='ok')
    ctx.need_witness('two pending batches Ok path', k3 > 0)
    ctx.expect_witness('matured + immature region', 'matured + immature pending together')
    ctx.need_witness('matured Ok path', n > 0)
    ctx.need_witness('immature world Ok path (released claim paid)', m > 0)
    ctx.expect_witness('boundary second reachable', 'exactly on the boundary second')
    ctx.expect_witness('one second early reachable', 'one second before maturity')


def ob_epoch(tok):
    """undelegation happens at most once per batch, only after more than one epoch, and moves the lifecycle forward"""
    def ob(ctx):
        W = HubWorld(ctx, n_validators=1, n_delegations=1)
        user = W.I.S('user_a')
        amount = W.iv('amount', 0, CAP)
        hr = W.add_history('r', released=None)
        W.st.add(hr['id'] >= 1, hr['id'] < W.batch_id, hr['time'] <= W.last_unbonded)
        W.install()
        token = W.bsei_token if tok == 'b' else W.stsei_token
        msg = W.receive('Unbond', user, amount)
        raw_scenario(W, 'execute', msg, token, querier=hub_querier_template(W))
        n = 0
        for st, res in W.execute(msg, token):
            if not is_ok(res):
                continue
            n += 1
            e = effects(W, st, res)
            passed = W.now - W.last_unbonded
            und = bool(e.history_writes)
            cl = []
            if und:
                hw = e.history_writes[-1]
                hv = hw[5].val if hasattr(hw[5], 'val') else hw[5]
                cl += [(passed > W.epoch, 'a batch is undelegated only after more than one epoch period since the previous undelegation', 'epoch_%s:early' % tok),
                       (e.post['last_unbonded'] == W.now, 'the undelegation time is recorded', 'epoch_%s:time' % tok),
                       (z3.And(hw[3][0][1] == W.batch_id, e.batch['id'] == W.batch_id + 1), 'batches are numbered consecutively; the undelegated id is closed', 'epoch_%s:ids' % tok),
                       (z3.And(hv.fields[1] == W.now, hv.fields[8] == False), 'history entry carries the undelegation time and is unreleased', 'epoch_%s:entry' % tok),   # noqa
                       (len(e.history_writes) == 1, 'exactly one history entry is written', 'epoch_%s:once' % tok),
                       (e.undelegated == sdiv(W.I, st, hv.fields[2].fields[0] * hv.fields[3].fields[0], E) + sdiv(W.I, st, hv.fields[5].fields[0] * hv.fields[6].fields[0], E),
                        'the amount undelegated = requests valued at the rates recorded in the history entry', 'epoch_%s:amount' % tok)]
            else:
                cl += [(passed <= W.epoch, 'the first unbond after the epoch period undelegates the batch', 'epoch_%s:late' % tok),
                       (z3.And(e.post['last_unbonded'] == W.last_unbonded, e.batch['id'] == W.batch_id, e.undelegated == 0),
                        'without undelegation the lifecycle does not move', 'epoch_%s:still' % tok)]
            # the earlier (released or not) history entry is never touched by an unbond
            for hw in e.history_writes:
                cl.append((hw[3][0][1] != hr['id'], 'an unbond never rewrites an older batch', 'epoch_%s:old' % tok))
            ctx.require_all(st, cl, W.mv)
            ctx.witness('unbond_%s exactly at the epoch boundary (no undelegation)' % tok, st, [passed == W.epoch], W.mv)
            ctx.witness('unbond_%s one second after the epoch boundary' % tok, st, [passed == W.epoch + 1, z3.BoolVal(und)], W.mv)
        ctx.need_witness('Ok path', n > 0)
        ctx.expect_witness('boundary second', 'exactly at the epoch boundary')
        ctx.expect_witness('boundary + 1', 'one second after the epoch boundary')
    return ob


def ob_immutable(variant):
    """once released, a batch's flag, amounts and rates never change: no message writes a released history entry"""
    def ob(ctx):
        W0 = HubWorld(ctx)
        lens = [1]
        if has_vec_field(W0, MSG, variant, HUB):
            lens = [0, 1]
        n = 0
        for vl in lens:
            W = HubWorld(ctx, n_validators=1, n_delegations=1)
            W.I.contracts_on = set(CONTRACTS)
            user = W.I.S('user_b')
            hr = W.add_history('r', released=True)
            hu = W.add_history('u', released=False)
            W.st.add(hr['id'] >= 1, hr['id'] <= W.last_processed, hu['id'] == W.last_processed + 1, W.batch_id == W.last_processed + 2)
            W.st.add(hr['bsei_wr'] <= 10 * E, hr['stsei_wr'] <= 10 * E, hu['bsei_wr'] <= 10 * E, hu['stsei_wr'] <= 10 * E)
            W.st.add(hr['time'] <= hu['time'], hu['time'] <= W.last_unbonded)
            sender = StrV(z3.Int('sender'))
            W.mv['sender'] = sender.id
            W.add_wait('r', sender, hr['id'])
            W.add_wait('u', sender, hu['id'])
            W.st.add(W.hub_balance >= W.prev_hub_balance)
            W.install()
            msg = sym_msg(W, MSG, variant, HUB, veclen=vl)
            funds = [W.mk.coin(W.iv('funds_amount', 0, CAP), W.denom)]
            raw_scenario(W, 'execute', msg, sender, funds, querier=hub_querier_template(W))
            for st, res in W.execute(msg, sender, funds):
                if not is_ok(res):
                    continue
                n += 1
                for ev in st.log:
                    if ev[0] == 'write' and ev[2] == ('P', b'history_map'):
                        ctx.require(st, ev[3][0][1] != hr['id'], 'a released batch entry is never written again', 'immutable:%s' % variant, W.mv)
                        if variant not in ('WithdrawUnbonded', 'Receive'):
                            ctx.violation('%s writes a history entry' % variant, 'immutable:%s:writes_history' % variant, {})
        ctx.witness_found('%s: %d Ok paths' % (variant, n))
    return ob


OBLIGATIONS = [('timelock', ob_timelock), ('epoch_unbond_bsei', ob_epoch('b')), ('epoch_unbond_stsei', ob_epoch('s'))] + \
    [('immutable_%s' % v, ob_immutable(v)) for v in VARIANTS]


def ORACLE(v, scn, out):
    from checks.c01 import decode_hub
    key = v.get('key') or ''
    res = out.get('result', {})
    if 'ok' not in res:
        return []
    pre, post = decode_hub(scn['storage']), decode_hub(out.get('storage', []))
    now = int(scn['env']['time'])
    params = pre['items'][b'\\x00\\x0bparameteres'] if b'\\x00\\x0bparameteres' in pre['items'] else pre['items'][b'\x00\x0bparameteres']
    st0, st1 = pre['items'][b'\x00\x05state'], post['items'][b'\x00\x05state']
    bad = []
    if key.startswith('timelock:'):
        for i, h in post['hist'].items():
            if h['released'] and i in pre['hist'] and not pre['hist'][i]['released'] and int(h['time']) + int(params['unbonding_period']) > now:
                bad.append('batch %d released %d s before the unbonding period elapsed' % (i, int(h['time']) + int(params['unbonding_period']) - now))
        immature = [i for i, h in pre['hist'].items() if not h['released'] and int(h['time']) + int(params['unbonding_period']) > now]
        for i in immature:
            if post['hist'].get(i) != pre['hist'][i]:
                bad.append('immature batch %d rewritten' % i)
            for k_ in pre['wait']:
                if k_[1] == i and k_ not in post['wait']:
                    bad.append('claim of %s on immature batch %d removed' % k_)
        mature = [i for i, h in pre['hist'].items() if not h['released'] and int(h['time']) + int(params['unbonding_period']) <= now]
        if key.endswith('younger_last') and int(st1['last_processed_batch']) > (max(mature) if mature else int(st0['last_processed_batch'])):
            bad.append('last_processed_batch jumps to %s past the matured batches %r' % (st1['last_processed_batch'], mature))
        return bad
    if key.startswith('epoch_'):
        what = key.split(':')[1]
        new = [i for i in post['hist'] if i not in pre['hist']]
        passed = now - int(st0['last_unbonded_time'])
        if what == 'early' and new and passed <= int(params['epoch_period']):
            bad.append('undelegated after only %d s (epoch %s)' % (passed, params['epoch_period']))
        if what == 'late' and not new and passed > int(params['epoch_period']):
            bad.append('no undelegation although %d s > epoch %s passed' % (passed, params['epoch_period']))
        if what == 'ids' and new and (new != [int(pre['items'][b'\x00\x0dcurrent_batch']['id'])] or int(post['items'][b'\x00\x0dcurrent_batch']['id']) != new[0] + 1):
            bad.append('batch ids not consecutive')
        if what == 'time' and new and int(st1['last_unbonded_time']) != now:
            bad.append('undelegation time not recorded')
        if what == 'amount' and new:
            h = post['hist'][new[0]]
            from checks.c01 import atoms
            want = int(h['bsei_amount']) * atoms(h['bsei_applied_exchange_rate']) // E + int(h['stsei_amount']) * atoms(h['stsei_applied_exchange_rate']) // E
            got = sum(int(sm['msg']['staking']['undelegate']['amount']['amount']) for sm in res['ok']['messages'] if 'staking' in sm['msg'] and 'undelegate' in sm['msg']['staking'])
            if got != want:
                bad.append('undelegated %d, requests x recorded rates = %d' % (got, want))
        if what == 'entry' and new:
            h = post['hist'][new[0]]
            if int(h['time']) != now or h['released']:
                bad.append('new history entry has time %s (now %d), released %r' % (h['time'], now, h['released']))
        if what == 'once' and len(new) > 1:
            bad.append('%d history entries written' % len(new))
        if what == 'still' and not new:
            cb0, cb1 = pre['items'][b'\x00\x0dcurrent_batch'], post['items'][b'\x00\x0dcurrent_batch']
            und = [sm for sm in res['ok']['messages'] if 'staking' in sm['msg']]
            if st1['last_unbonded_time'] != st0['last_unbonded_time'] or cb0['id'] != cb1['id'] or und:
                bad.append('lifecycle moved without undelegation')
        if what == 'old':
            for i, h in pre['hist'].items():
                if post['hist'].get(i) != h:
                    bad.append('older batch %d rewritten by an unbond' % i)
        return bad
    if key.startswith('immutable:'):
        for i, h in pre['hist'].items():
            if h['released'] and post['hist'].get(i) != h:
                bad.append('released batch %d changed' % i)
        return bad
    return None


def _amount_d2(ctx):
    """last sentence of C08 with two delegation entries: the Undelegate messages of the batch sum to the requests valued at the
    recorded rates, however the plan distributes them (zero entries before non-zero ones included); world, claims and replay of
    C02's unbond obligation"""
    from checks.c02 import mk as mk2
    return mk2('unbond_bsei', 1, 2)(ctx)


def _replay_amount_d2(v, run_scenario):
    from checks.c02 import replay_any as r2
    return r2(v, run_scenario)


OBLIGATIONS.append(('epoch_amount_d2', _amount_d2))
REPLAY = dict(globals().get('REPLAY', {}), epoch_amount_d2=_replay_amount_d2)
