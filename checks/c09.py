# C09  Holders can always exit; exits do not depend on the reward plumbing
import z3
from smir.values import *   # noqa
from checks.hubmodel import *     # noqa
from checks.generic import raw_scenario, sym_msg

CRATES = ['basset_sei_hub', 'basset_sei_token_bsei', 'basset_sei_token_stsei', 'basset_sei_reward']
BOUNDS = {'quick': {'delegations': '1..2', 'validators': 1}, 'thorough': {'delegations': '1..3'}}
ASSUMPTIONS = ['E1-E4; the hub is not paused; both tokens registered', 'the holder unbonds 1 <= amount <= its balance <= the token supply',
               'excluded by the property: a validator set slashed to zero (total delegated >= 1)',
               'withdrawal success once matured: obligation withdraw_matured_with_pending_requests here (one matured batch; the holder also has a request in an undelegated batch that has not matured and one in the open batch) and release:fails of C01']
OUTSIDE = ['the swap / oracle contracts can only influence a transaction that queries or calls them: decided on the query/message log of every path']


def ob_unbond(tok, nd):
    def ob(ctx):
        W = HubWorld(ctx, n_validators=1, n_delegations=nd)
        I = W.I
        W.install()
        user = I.S('user_a')
        amount = W.iv('amount', 1, CAP)
        W.amount = amount
        supply = W.Sb if tok == 'b' else W.Ss
        W.st.add(amount <= supply, W.D >= 1)
        token = W.bsei_token if tok == 'b' else W.stsei_token
        msg = W.receive('Unbond', user, amount)
        raw_scenario(W, 'execute', msg, token, querier=hub_querier_template(W))
        nok = 0
        T = W.Bb + W.Bs
        for st, res in W.execute(msg, token):
            if is_ok(res):
                nok += 1
                e = effects(W, st, res)
                ctx.witness('unbond_%s with undelegation' % tok, st, [z3.BoolVal(bool(e.undelegate_msgs))], W.mv)
                passed = W.now - W.last_unbonded
                cl = [(z3.Implies(passed > W.epoch, z3.BoolVal(bool(e.history_writes))), 'the request is undelegated by the first unbond that arrives after the epoch period', 'unbond_%s:undelegated' % tok)]
                for hw in e.history_writes:
                    hv = hw[5].val if hasattr(hw[5], 'val') else hw[5]
                    cl.append((z3.And(hv.fields[1] == W.now, hv.fields[8] == False),   # noqa
                               'the undelegated batch is recorded with the time of its undelegation (its claims mature one unbonding period later, not earlier)', 'unbond_%s:undelegation_time' % tok))
                ctx.require_all(st, cl, W.mv)
                continue
            what = res.msg if isinstance(res, Panic) else 'Err'
            # the pools as the handler sees them after its own slashing synchronisation
            sync = None
            for ev in st.log:
                if ev[0] == 'write' and ev[2] == ('K', b'\x00\x05state'):
                    v_ = ev[5].val if hasattr(ev[5], 'val') else ev[5]
                    sync = (v_.fields[2].fields[0], v_.fields[3].fields[0])
                    break
            regular = True
            if sync is not None:
                # the zero-pool corner (pool slashed to exactly zero while claims remain) is decided separately
                regular = z3.And(z3.Or(sync[0] >= 1, W.Sb + W.Qb == 0), z3.Or(sync[1] >= 1, W.Ss + W.Qs == 0))
            ctx.infeasible(st, 'any holder can unbond any positive part of its balance (no error / panic path)', 'unbond_%s:blocked' % tok, W.mv,
                           assume=[regular] if regular is not True else [])
            if regular is not True:
                ctx.infeasible(st, 'unbond succeeds also when a pool was slashed to zero while claims remain', 'zero_pool', W.mv, assume=[z3.Not(regular)])
        ctx.need_witness('Ok path', nok > 0)
        ctx.expect_witness('undelegation region', 'with undelegation')
        ctx.ob.bounds = {'delegations': nd}
    return ob


def ob_independent_hub(ctx):
    """bond / unbond / convert / withdraw / slashing check never query or call the swap and oracle contracts:
    every smart query goes to a token or the registry, every message to a token, the staking or the bank module"""
    n = 0
    for op in OPS + ['withdraw']:
        W = HubWorld(ctx, n_validators=1, n_delegations=1)
        if op == 'withdraw':
            W.I.contracts_on = {'SignedInt::from_subtraction', 'Uint256*Decimal256', 'calculate_new_withdraw_rate'}
            user = W.I.S('user_a')
            h = W.add_history('1', released=False)
            W.st.add(h['id'] == W.last_processed + 1, W.batch_id == W.last_processed + 2, h['bsei_wr'] <= 10 * E, h['stsei_wr'] <= 10 * E)
            W.add_wait('1', user, h['id'])
            W.st.add(W.hub_balance >= W.prev_hub_balance)
            W.install()
            gen = W.execute(W.msg('WithdrawUnbonded'), user)
        else:
            W.install()
            gen = start_op(W, op)
        allowed_q = {W.bsei_token.id, W.stsei_token.id, W.registry.id}
        for st, res in gen:
            n += 1
            for ev in st.log:
                if ev[0] == 'query' and ev[1] == 'smart':
                    if ev[2].id not in allowed_q:
                        ctx.violation('%s queries a contract other than the tokens / registry' % op, 'independent:%s:query' % op, {'addr': str(ev[2])})
            if is_ok(res):
                for m in W.messages(st, res):
                    if m['kind'] == 'wasm_execute' and m['contract'].id not in (W.bsei_token.id, W.stsei_token.id):
                        ctx.violation('%s calls a contract other than the tokens' % op, 'independent:%s:call' % op, {'addr': str(m['contract'])})
    ctx.ob.paths += n
    ctx.witness_found('query / message log of %d paths inspected' % n)


def ob_independent_tokens(ctx):
    """token transfers / sends and reward claims: the only contracts consulted are the hub and the dispatcher (Config queries:
    read-only lookups of the reward contract address); none of them touches the swap or the oracle"""
    from checks.tokens import TokenWorld
    from checks.c10 import MSG_TY, RewardWorld
    n = 0
    for which in ('bsei', 'stsei'):
        ty, crate = MSG_TY[which]
        for variant in ('Transfer', 'Send', 'TransferFrom', 'SendFrom'):
            W = TokenWorld(ctx, which)
            W.install()
            msg = sym_msg(W, ty, variant, crate)
            sender = W.sv('sender')
            for st, res in W.execute(msg, sender):
                n += 1
                for ev in st.log:
                    if ev[0] == 'query' and ev[1] == 'smart' and ev[2].id not in (W.hub.id, W.dispatcher.id):
                        ctx.violation('%s %s queries an unexpected contract' % (which, variant), 'independent:%s:%s' % (which, variant), {})
                    if ev[0] == 'query' and which == 'stsei':
                        ctx.violation('stSei %s depends on another contract' % variant, 'independent:stsei:%s' % variant, {})
    W = RewardWorld(ctx)
    W.add_holder('c', W.I.S('holder_c'))
    W.install()
    msg = W.mk.variant('basset::reward::ExecuteMsg', 'ClaimRewards', crate='basset', recipient=NONE)
    for st, res in W.execute(msg, W.I.S('holder_c')):
        n += 1
        if [ev for ev in st.log if ev[0] == 'query']:
            ctx.violation('ClaimRewards consults another contract', 'independent:reward:claim', {})
    ctx.ob.paths += n
    ctx.witness_found('%d token / reward paths inspected' % n)


def _withdraw_pending(ctx):
    from checks.c01 import ob_release
    return ob_release(1, 0, real_kernel=True, pending=True)(ctx)


def _withdraw_immature(ctx):
    from checks.c01 import ob_release
    return ob_release(1, 0, real_kernel=True, pending=True, immature=True)(ctx)


def _withdraw_old(ctx):
    """the holder still has an unpaid claim on an already released batch when the next batch matures (possibly worth nothing,
    so that the hub balance equals the recorded one); SignedInt::from_subtraction is executed from its real MIR here"""
    from checks.c01 import ob_release
    return ob_release(1, 1, real_kernel=True, real_sub=True, only={'release:fails', 'release:share', 'release:removed', 'release:msg'})(ctx)


def _withdraw_k0(ctx):
    """a withdrawal that releases nothing (the batch was released by an earlier withdrawal of another claimant) keeps the
    recorded balance in step with what left the hub, otherwise the next release misreads the arrived coins"""
    from checks.c01 import ob_release
    return ob_release(0, 1, real_kernel=True, only={'release:fails', 'release:share', 'release:prev', 'release:solvent', 'release:removed'})(ctx)


def _withdraw_many(k):
    def ob(ctx):
        from checks.c01 import ob_release, plain_batches, plain_fixed
        return ob_release(k, 0, light=True, other=False, shape=plain_batches, fixed=plain_fixed(k),
                          only=('release:released', 'release:last', 'release:share'))(ctx)
    ob.__doc__ = ('an exit through many matured batches at once (%d batches of the plainest shape, a claim of the holder in each): every one '
                  'of them is released and paid in the same withdrawal - no page size or cap of a helper applies to the release loop' % k)
    return ob


def _index_update_frame(ctx):
    """UpdateGlobalIndex is the only hub transaction that runs the reward plumbing (swap, oracle): whether it commits or reverts
    must not matter to an exit, so it may write nothing but last_index_modification - in particular not the epoch clock
    last_unbonded_time, the open batch or the pools (world, claims and replay of C19's hub_update)"""
    from checks.c19 import ob_hub_update
    return ob_hub_update(1)(ctx)


OBLIGATIONS = [('withdraw_matured_with_pending_requests', _withdraw_immature), ('withdraw_through_12_matured_batches', _withdraw_many(12)), ('withdraw_through_35_matured_batches', _withdraw_many(35)), ('index_update_leaves_exits_alone', _index_update_frame), ('withdraw_without_release', _withdraw_k0), ('withdraw_released_claim_when_next_batch_matures', _withdraw_old), ('unbond_bsei_d1', ob_unbond('b', 1)), ('unbond_stsei_d1', ob_unbond('s', 1)), ('unbond_bsei_d2', ob_unbond('b', 2)),
               ('unbond_stsei_d2', ob_unbond('s', 2)), ('independent_hub', ob_independent_hub), ('independent_tokens', ob_independent_tokens)]


def tier_filter(name, tier):
    return tier == 'thorough' or not name.endswith('_d2')


def ORACLE(v, scn, out):
    key = v.get('key') or ''
    if key.startswith('hub_update:'):
        from checks.c19 import ORACLE as O19
        return O19(v, scn, out)
    if key.startswith('release:'):
        from checks.c01 import ORACLE as O1
        return O1(v, scn, out)
    res = out.get('result', {})
    if key.endswith(':undelegated') or key.endswith(':undelegation_time'):
        if 'ok' not in res:
            return []
        from checks.c01 import decode_hub
        pre, post = decode_hub(scn['storage']), decode_hub(out.get('storage', []))
        now = int(scn['env']['time'])
        new = [i for i in post['hist'] if i not in pre['hist']]
        passed = now - int(pre['items'][b'\x00\x05state']['last_unbonded_time'])
        if key.endswith(':undelegated'):
            return ['%d s > epoch passed but the batch was not undelegated' % passed] if (passed > int(pre['items'][b'\x00\x0bparameteres']['epoch_period']) and not new) else []
        return ['batch %d recorded with time %s, undelegated at %d' % (i, post['hist'][i]['time'], now) for i in new if int(post['hist'][i]['time']) != now or post['hist'][i]['released']]
    if key.endswith(':blocked') or key == 'zero_pool':
        if 'ok' in res:
            return []
        from checks.c01 import decode_hub
        pre = decode_hub(scn['storage'])
        q = scn['querier']
        D = sum(int(d['amount']) for d in q['delegations'])
        st0 = pre['items'][b'\x00\x05state']
        Bb, Bs = int(st0['total_bond_bsei_amount']), int(st0['total_bond_stsei_amount'])
        T = Bb + Bs
        if D < T and T > 0:
            b1 = D * (Bb * E // T) // E
            s1 = D - b1
        else:
            b1, s1 = Bb, Bs
        cb = int(q['supplies'][0]['supply']) + int(pre['items'][b'\x00\x0dcurrent_batch']['requested_bsei_with_fee'])
        cs = int(q['supplies'][1]['supply']) + int(pre['items'][b'\x00\x0dcurrent_batch']['requested_stsei'])
        corner = (b1 == 0 and cb > 0) or (s1 == 0 and cs > 0)
        if (key == 'zero_pool') != corner:
            return []
        return ['unbond rejected: ' + str(res)[:200]]
    return None
