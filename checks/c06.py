# C06  Slashing is recognised exactly and shared pro-rata between the two pools
import z3
from smir.values import *   # noqa
from checks.hubmodel import *     # noqa

CRATES = ['basset_sei_hub']
BOUNDS = {'quick': {'delegations': '1..2', 'magnitudes': '<= 1e18 on the *total* booked stake (E1)'},
          'thorough': {'delegations': '1..3'}}
ASSUMPTIONS = ['E1 (total booked stake <= 1e18), E3, E4', 'the hub has at least one delegation entry (an empty delegation '
               'list is the excluded "validator set slashed to zero / nothing ever delegated" case)']
OUTSIDE = ['how one token side\'s loss is divided between several batches of that side (the rate kernel calculate_new_withdraw_rate) is decided by '
           'C01 kernel_new_withdraw_rate / release_*', 'more delegation entries than the bound (only their sum enters the computation)']

OPS6 = ['check_slashing', 'bond', 'bond_stsei', 'bond_rewards', 'unbond_bsei', 'unbond_stsei', 'convert_bsei', 'convert_stsei']


def mk(op, ndel):
    def ob(ctx):
        W = HubWorld(ctx, n_validators=1, n_delegations=ndel)
        W.install()
        nok = 0
        for st, res in start_op(W, op):
            if not is_ok(res):
                continue
            nok += 1
            e = effects(W, st, res)
            if e.sync is None:
                # the handler did not run the slashing check at all: the books cannot have been brought down to the delegation
                ctx.require(st, W.D >= W.Bb + W.Bs, 'the slashing check inside the handler recognises a pending slash (books are synchronised)', op + ':exact', W.mv)
                continue
            Bb, Bs, D = W.Bb, W.Bs, W.D
            T = Bb + Bs
            b1, s1 = e.sync['Bb'], e.sync['Bs']
            slashed = z3.And(D < T)
            ctx.require_all(st, [
                (z3.Implies(slashed, b1 + s1 == D), 'after recognised slashing the booked stake equals the delegated amount', op + ':exact'),
                (z3.Implies(slashed, z3.And(b1 * T - D * Bb <= 2 * T, D * Bb - b1 * T <= 2 * T)),
                 'bSei pool within two units of its pro-rata share', op + ':prorata_b'),
                (z3.Implies(slashed, z3.And(s1 * T - D * Bs <= 2 * T, D * Bs - s1 * T <= 2 * T)),
                 'stSei pool within two units of its pro-rata share', op + ':prorata_s'),
                (b1 + s1 <= T, 'a check never raises the booked stake', op + ':never_raise'),
                (z3.Implies(D >= T, z3.And(b1 == Bb, s1 == Bs)), 'no slashing => pools unchanged', op + ':unchanged'),
            ], W.mv)
            if True:
                ctx.witness('slashing recognised (%s)' % op, st, [D < T, T > 0], W.mv)
                ctx.witness('no slashing (%s)' % op, st, [D >= T, T > 0], W.mv)
                ctx.witness('empty bSei pool slashed (%s)' % op, st, [D < T, Bb == 0, Bs > 0], W.mv)
        ctx.need_witness('Ok path of ' + op, nok > 0)
        ctx.expect_witness('slashing region reachable (%s)' % op, 'slashing recognised')
        ctx.expect_witness('no-slashing region reachable (%s)' % op, 'no slashing')
        ctx.ob.bounds = {'delegations': ndel}
    return ob


OBLIGATIONS = []
for _op in OPS6:
    OBLIGATIONS.append(('%s_d1' % _op, mk(_op, 1)))
OBLIGATIONS.append(('check_slashing_d2', mk('check_slashing', 2)))
OBLIGATIONS.append(('check_slashing_d3', mk('check_slashing', 3)))


def _unbonding_slash(k, light):
    """loss on stake slashed while unbonding: each token side of the batches released together is charged its own part
    (world and claims of C01's release obligation, restricted to the per-token-type claims)"""
    def ob(ctx):
        from checks.c01 import ob_release
        keys = {'release:per_token_s', 'release:per_token_b', 'release:per_token_calls'} | (set() if light else {'release:conservation'})
        return ob_release(k, 0, real_kernel=not light, light=light, only=keys)(ctx)
    return ob


OBLIGATIONS.append(('unbonding_slash_k1', _unbonding_slash(1, False)))
OBLIGATIONS.append(('unbonding_slash_k2', _unbonding_slash(2, True)))


def tier_filter(name, tier):
    return tier == 'thorough' or not name.endswith('_d3')


def replay_any(v, run_scenario):
    if (v.get('key') or '').startswith('release:'):
        from smir.replay import generic_replay
        import checks.c01 as c1
        return generic_replay(c1)(v, run_scenario)
    m = v['model']
    op = (v.get('key') or '').split(':')[0]
    scn = hub_scenario(m, op)
    out = run_scenario(scn)
    if 'error' in out:
        return {'status': 'unavailable', 'detail': out['error']}
    syn = out.get('synced_state')
    bad = []
    if syn and 'ok' in out.get('result', {}):
        Bb, Bs = mget(m, 'B_bsei'), mget(m, 'B_stsei')
        T = Bb + Bs
        D = 0
        i = 0
        while 'deleg_%d' % i in m:
            D += mget(m, 'deleg_%d' % i)
            i += 1
        b1, s1 = int(syn['total_bond_bsei_amount']), int(syn['total_bond_stsei_amount'])
        if i > 0 and T > 0:
            if D < T:
                if b1 + s1 != D:
                    bad.append('booked %d != delegated %d after slashing' % (b1 + s1, D))
                if abs(b1 * T - D * Bb) > 2 * T:
                    bad.append('bSei pool %d deviates from pro-rata share of %d by more than 2' % (b1, D))
                if abs(s1 * T - D * Bs) > 2 * T:
                    bad.append('stSei pool %d deviates from pro-rata share by more than 2' % s1)
            else:
                if (b1, s1) != (Bb, Bs):
                    bad.append('pools changed without slashing')
            if b1 + s1 > T:
                bad.append('the booked stake was raised')
            # what the handler itself stored: after a pending slash the books equal the delegation (plus / minus what this
            # very operation delegates / undelegates); a handler that skipped the check keeps the old books
            post = out.get('storage', {}).get('state')
            if post and D < T:
                e = real_effects(out)
                D2 = D + e['delegated'] - e['undelegated']
                pb, ps = int(post['total_bond_bsei_amount']), int(post['total_bond_stsei_amount'])
                if pb + ps != D2:
                    bad.append('after the operation the hub books %d but %d is delegated: the pending slash was not recognised' % (pb + ps, D2))
    return {'status': 'reproduced' if bad else 'mismatch', 'scenario': scn, 'output': out, 'oracle': bad}


REPLAY = {'*': replay_any}

from checks import migrate as _migrate
_migrate.attach(globals(), 'hub')
