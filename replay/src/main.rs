// Replay runner: executes scenarios (JSON on stdin) against the real contract code of /repo.
use std::io::Read;
use std::panic::{catch_unwind, AssertUnwindSafe};

use cosmwasm_std::Uint128;
use serde_json::{json, Value};

mod hub;
mod raw;

fn u128_of(v: &Value) -> u128 {
    match v {
        Value::String(s) => s.parse::<u128>().expect("u128 string"),
        Value::Number(n) => n.as_u64().expect("u64 number") as u128,
        _ => panic!("not a number: {}", v),
    }
}

fn kernels(kind: &str, v: &Value) -> Value {
    use basset_sei_validators_registry::common::{calculate_delegations, calculate_undelegations};
    use basset_sei_validators_registry::registry::ValidatorResponse;
    let vals: Vec<ValidatorResponse> = v["validators"]
        .as_array()
        .unwrap()
        .iter()
        .enumerate()
        .map(|(i, d)| ValidatorResponse {
            total_delegated: Uint128::new(u128_of(d)),
            address: format!("val{}", i),
        })
        .collect();
    let amount = Uint128::new(u128_of(&v["amount"]));
    match kind {
        "calc_delegations" => match calculate_delegations(amount, vals.as_slice()) {
            Ok((rem, d)) => json!({"ok": {"remaining": rem.to_string(),
                "plan": d.iter().map(|x| x.to_string()).collect::<Vec<_>>()}}),
            Err(e) => json!({"err": e.to_string()}),
        },
        "calc_undelegations" => match calculate_undelegations(amount, vals) {
            Ok(d) => json!({"ok": {"plan": d.iter().map(|x| x.to_string()).collect::<Vec<_>>()}}),
            Err(e) => json!({"err": e.to_string()}),
        },
        _ => unreachable!(),
    }
}

fn dispatch(v: &Value) -> Value {
    let kind = v["kind"].as_str().unwrap_or("");
    match kind {
        "calc_delegations" | "calc_undelegations" => kernels(kind, v),
        "hub" => hub::run(v),
        "raw" => raw::run(v),
        "canonicalize" => raw::canonicalize(v),
        _ => json!({"error": format!("unknown scenario kind {}", kind)}),
    }
}

fn main() {
    let mut s = String::new();
    std::io::stdin().read_to_string(&mut s).unwrap();
    let v: Value = serde_json::from_str(&s).expect("scenario JSON");
    std::panic::set_hook(Box::new(|_| {}));
    let scenarios: Vec<Value> = match &v {
        Value::Array(a) => a.clone(),
        _ => vec![v.clone()],
    };
    let mut outs = vec![];
    for sc in scenarios.iter() {
        let r = catch_unwind(AssertUnwindSafe(|| dispatch(sc)));
        outs.push(match r {
            Ok(x) => x,
            Err(e) => {
                let msg = if let Some(s) = e.downcast_ref::<String>() {
                    s.clone()
                } else if let Some(s) = e.downcast_ref::<&str>() {
                    s.to_string()
                } else {
                    "panic".to_string()
                };
                json!({"panic": msg})
            }
        });
    }
    if let Value::Array(_) = v {
        println!("{}", Value::Array(outs));
    } else {
        println!("{}", outs[0]);
    }
}
