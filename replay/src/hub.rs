use serde_json::{json, Value};
pub fn run(_v: &Value) -> Value {
    json!({"error": "hub scenarios not implemented yet"})
}
