// Hub scenarios: load a typed pre-state into MockStorage through the contract's own storage API,
// answer queries from canned chain facts, run the real entry point, dump the post-state.
use basset::hub::{
    Config, CurrentBatch, ExecuteMsg, InstantiateMsg, Parameters, QueryMsg, State, UnbondHistory, UnbondType,
};
use basset_sei_hub::contract::{execute, instantiate, query};
use basset_sei_hub::state::{
    all_unbond_history, get_unbond_requests, read_new_owner, store_new_owner, store_unbond_history,
    store_unbond_wait_list, NewOwnerAddr, CONFIG, CURRENT_BATCH, PARAMETERS, STATE,
};
use cosmwasm_std::testing::{mock_env, MockApi, MockStorage};
use cosmwasm_std::{
    from_json, to_json_binary, Addr, AllBalanceResponse, AllDelegationsResponse, Api, BalanceResponse, BankQuery,
    Binary, BondedDenomResponse, Coin, ContractResult, Decimal, Delegation, DelegationResponse, Deps, DepsMut, Empty,
    Env, MessageInfo, OwnedDeps, Querier, QuerierResult, QuerierWrapper, QueryRequest, StakingQuery, Storage,
    SystemError, SystemResult, Timestamp, Uint128, WasmQuery,
};
use cosmwasm_storage::Bucket;
use serde_json::{json, Value};
use std::marker::PhantomData;

pub struct Facts {
    pub balances: Vec<(String, String, Uint128)>,          // (address, denom, amount)
    pub delegations: Vec<(String, Uint128, String)>,       // (validator, amount, denom)
    pub validators: Vec<(String, Uint128)>,                // registry answer
    pub supplies: Vec<(String, Uint128)>,                  // token address -> total supply
    pub cw20_balances: Vec<(String, Uint128)>,             // token address -> balance of the hub (airdrop)
    pub hub: String,
    pub failing: Vec<String>,                              // contract addresses whose smart queries fail
    pub smart: Vec<(String, String, Value)>,               // (contract, top-level key of the query, response)
    // answers of the single-validator Delegation query that override the list above:
    // (validator or "*", present, amount, can_redelegate)
    pub full_delegations: Vec<(String, bool, Uint128, Uint128)>,
    pub chain_validators: Vec<String>,                     // the chain's validator set (StakingQuery::AllValidators)
}

impl Querier for Facts {
    fn raw_query(&self, bin_request: &[u8]) -> QuerierResult {
        let request: QueryRequest<Empty> = match from_json(bin_request) {
            Ok(v) => v,
            Err(e) => {
                return SystemResult::Err(SystemError::InvalidRequest {
                    error: format!("Parsing query request: {}", e),
                    request: bin_request.into(),
                })
            }
        };
        match request {
            QueryRequest::Bank(BankQuery::Balance { address, denom }) => {
                let amt = self
                    .balances
                    .iter()
                    .find(|b| b.0 == address && b.1 == denom)
                    .map(|b| b.2)
                    .unwrap_or_default();
                SystemResult::Ok(ContractResult::Ok(
                    to_json_binary(&BalanceResponse { amount: Coin { denom, amount: amt } }).unwrap(),
                ))
            }
            QueryRequest::Bank(BankQuery::AllBalances { address }) => {
                let amount: Vec<Coin> = self
                    .balances
                    .iter()
                    .filter(|b| b.0 == address)
                    .map(|b| Coin { denom: b.1.clone(), amount: b.2 })
                    .collect();
                SystemResult::Ok(ContractResult::Ok(to_json_binary(&AllBalanceResponse { amount }).unwrap()))
            }
            QueryRequest::Staking(StakingQuery::AllDelegations { delegator }) => {
                let delegations: Vec<Delegation> = if delegator == self.hub {
                    self.delegations
                        .iter()
                        .map(|d| Delegation {
                            delegator: Addr::unchecked(delegator.clone()),
                            validator: d.0.clone(),
                            amount: Coin { denom: d.2.clone(), amount: d.1 },
                        })
                        .collect()
                } else {
                    vec![]
                };
                SystemResult::Ok(ContractResult::Ok(
                    to_json_binary(&AllDelegationsResponse { delegations }).unwrap(),
                ))
            }
            QueryRequest::Staking(StakingQuery::Delegation { delegator, validator })
                if self.full_delegations.iter().any(|f| f.0 == validator || f.0 == "*") =>
            {
                let f = self.full_delegations.iter().find(|f| f.0 == validator || f.0 == "*").unwrap();
                let delegation = if f.1 {
                    Some(cosmwasm_std::FullDelegation {
                        delegator: Addr::unchecked(delegator.clone()),
                        validator: validator.clone(),
                        amount: Coin { denom: "usei".to_string(), amount: f.2 },
                        can_redelegate: Coin { denom: "usei".to_string(), amount: f.3 },
                        accumulated_rewards: vec![],
                    })
                } else {
                    None
                };
                SystemResult::Ok(ContractResult::Ok(to_json_binary(&DelegationResponse { delegation }).unwrap()))
            }
            QueryRequest::Staking(StakingQuery::Delegation { delegator, validator }) => {
                let d = self.delegations.iter().find(|d| d.0 == validator && delegator == self.hub);
                let delegation = d.map(|d| cosmwasm_std::FullDelegation {
                    delegator: Addr::unchecked(delegator.clone()),
                    validator: d.0.clone(),
                    amount: Coin { denom: d.2.clone(), amount: d.1 },
                    can_redelegate: Coin { denom: d.2.clone(), amount: d.1 },
                    accumulated_rewards: vec![],
                });
                SystemResult::Ok(ContractResult::Ok(to_json_binary(&DelegationResponse { delegation }).unwrap()))
            }
            QueryRequest::Staking(StakingQuery::AllValidators {}) => {
                let validators: Vec<cosmwasm_std::Validator> = self
                    .chain_validators
                    .iter()
                    .map(|a| cosmwasm_std::Validator {
                        address: a.clone(),
                        commission: Decimal::zero(),
                        max_commission: Decimal::one(),
                        max_change_rate: Decimal::one(),
                    })
                    .collect();
                SystemResult::Ok(ContractResult::Ok(
                    to_json_binary(&cosmwasm_std::AllValidatorsResponse { validators }).unwrap(),
                ))
            }
            QueryRequest::Staking(StakingQuery::BondedDenom {}) => SystemResult::Ok(ContractResult::Ok(
                to_json_binary(&BondedDenomResponse { denom: "usei".to_string() }).unwrap(),
            )),
            QueryRequest::Wasm(WasmQuery::Smart { contract_addr, msg }) => {
                if self.failing.contains(&contract_addr) {
                    return SystemResult::Err(SystemError::NoSuchContract { addr: contract_addr });
                }
                let v: Value = serde_json::from_slice(msg.as_slice()).unwrap_or(Value::Null);
                for (c, key, resp) in self.smart.iter() {
                    if *c == contract_addr && (v.get(key).is_some() || v.as_str() == Some(key.as_str())) {
                        return SystemResult::Ok(ContractResult::Ok(Binary::from(serde_json::to_vec(resp).unwrap())));
                    }
                }
                if v.get("token_info").is_some() {
                    if let Some(s) = self.supplies.iter().find(|s| s.0 == contract_addr) {
                        let r = json!({"name":"tok","symbol":"TOK","decimals":6,"total_supply": s.1.to_string()});
                        return SystemResult::Ok(ContractResult::Ok(Binary::from(serde_json::to_vec(&r).unwrap())));
                    }
                }
                if v.get("balance").is_some() {
                    if let Some(s) = self.cw20_balances.iter().find(|s| s.0 == contract_addr) {
                        let r = json!({"balance": s.1.to_string()});
                        return SystemResult::Ok(ContractResult::Ok(Binary::from(serde_json::to_vec(&r).unwrap())));
                    }
                }
                if v.get("get_validators_for_delegation").is_some() {
                    let r: Vec<Value> = self
                        .validators
                        .iter()
                        .map(|x| json!({"address": x.0, "total_delegated": x.1.to_string()}))
                        .collect();
                    return SystemResult::Ok(ContractResult::Ok(Binary::from(serde_json::to_vec(&r).unwrap())));
                }
                SystemResult::Err(SystemError::NoSuchContract { addr: contract_addr })
            }
            _ => SystemResult::Err(SystemError::UnsupportedRequest { kind: "unsupported".to_string() }),
        }
    }
}

fn s(v: &Value) -> String {
    v.as_str().unwrap_or("").to_string()
}

fn u(v: &Value) -> Uint128 {
    match v {
        Value::String(x) => Uint128::new(x.parse::<u128>().expect("u128")),
        Value::Number(n) => Uint128::new(n.as_u64().expect("u64") as u128),
        Value::Null => Uint128::zero(),
        _ => panic!("not a number {}", v),
    }
}

fn u64_of(v: &Value) -> u64 {
    match v {
        Value::String(x) => x.parse::<u64>().expect("u64"),
        Value::Number(n) => n.as_u64().expect("u64"),
        Value::Null => 0,
        _ => panic!("not a u64 {}", v),
    }
}

/// Decimal from atomics (string / number of 1e-18 units)
fn dec(v: &Value) -> Decimal {
    Decimal::from_atomics(u(v), 18).expect("decimal atomics")
}

pub fn facts_from(q: &Value, hub: &str) -> Facts {
    let arr = |k: &str| q.get(k).and_then(|x| x.as_array()).cloned().unwrap_or_default();
    Facts {
        hub: hub.to_string(),
        balances: arr("balances").iter().map(|b| (s(&b["address"]), s(&b["denom"]), u(&b["amount"]))).collect(),
        delegations: arr("delegations")
            .iter()
            .map(|d| (s(&d["validator"]), u(&d["amount"]), d.get("denom").map(s).unwrap_or("usei".to_string())))
            .collect(),
        validators: arr("validators").iter().map(|d| (s(&d["address"]), u(&d["total_delegated"]))).collect(),
        supplies: arr("supplies").iter().map(|d| (s(&d["token"]), u(&d["supply"]))).collect(),
        cw20_balances: arr("cw20_balances").iter().map(|d| (s(&d["token"]), u(&d["balance"]))).collect(),
        failing: arr("failing").iter().map(s).collect(),
        smart: arr("smart").iter().map(|d| (s(&d["contract"]), s(&d["key"]), d["response"].clone())).collect(),
        chain_validators: arr("chain_validators").iter().map(s).collect(),
        full_delegations: arr("full_delegations")
            .iter()
            .map(|d| {
                (
                    s(&d["validator"]),
                    d.get("present").and_then(|x| x.as_bool()).unwrap_or(true),
                    u(&d["amount"]),
                    u(&d["can_redelegate"]),
                )
            })
            .collect(),
    }
}

fn opt_addr(api: &MockApi, v: &Value) -> Option<cosmwasm_std::CanonicalAddr> {
    match v {
        Value::String(x) => Some(api.addr_canonicalize(x).expect("canonicalize")),
        _ => None,
    }
}

fn load_storage(storage: &mut dyn Storage, api: &MockApi, st: &Value) {
    if let Some(c) = st.get("config") {
        let cfg = Config {
            creator: api.addr_canonicalize(&s(&c["creator"])).unwrap(),
            update_reward_index_addr: api.addr_canonicalize(&s(&c["update_reward_index_addr"])).unwrap(),
            reward_dispatcher_contract: opt_addr(api, &c["reward_dispatcher_contract"]),
            validators_registry_contract: opt_addr(api, &c["validators_registry_contract"]),
            bsei_token_contract: opt_addr(api, &c["bsei_token_contract"]),
            stsei_token_contract: opt_addr(api, &c["stsei_token_contract"]),
            airdrop_registry_contract: opt_addr(api, &c["airdrop_registry_contract"]),
            rewards_contract: opt_addr(api, &c["rewards_contract"]),
        };
        CONFIG.save(storage, &cfg).unwrap();
    }
    if let Some(x) = st.get("state") {
        let state = State {
            bsei_exchange_rate: dec(&x["bsei_exchange_rate"]),
            stsei_exchange_rate: dec(&x["stsei_exchange_rate"]),
            total_bond_bsei_amount: u(&x["total_bond_bsei_amount"]),
            total_bond_stsei_amount: u(&x["total_bond_stsei_amount"]),
            last_index_modification: u64_of(&x["last_index_modification"]),
            prev_hub_balance: u(&x["prev_hub_balance"]),
            last_unbonded_time: u64_of(&x["last_unbonded_time"]),
            last_processed_batch: u64_of(&x["last_processed_batch"]),
        };
        STATE.save(storage, &state).unwrap();
    }
    if let Some(x) = st.get("params") {
        let p = Parameters {
            epoch_period: u64_of(&x["epoch_period"]),
            underlying_coin_denom: s(&x["underlying_coin_denom"]),
            unbonding_period: u64_of(&x["unbonding_period"]),
            peg_recovery_fee: dec(&x["peg_recovery_fee"]),
            er_threshold: dec(&x["er_threshold"]),
            reward_denom: s(&x["reward_denom"]),
            paused: x.get("paused").and_then(|b| b.as_bool()),
        };
        PARAMETERS.save(storage, &p).unwrap();
    }
    if let Some(x) = st.get("current_batch") {
        let b = CurrentBatch {
            id: u64_of(&x["id"]),
            requested_bsei_with_fee: u(&x["requested_bsei_with_fee"]),
            requested_stsei: u(&x["requested_stsei"]),
        };
        CURRENT_BATCH.save(storage, &b).unwrap();
    }
    if let Some(Value::String(o)) = st.get("new_owner") {
        store_new_owner(storage, &NewOwnerAddr { new_owner_addr: api.addr_canonicalize(o).unwrap() }).unwrap();
    }
    if let Some(Value::Array(hs)) = st.get("histories") {
        for h in hs {
            let hist = UnbondHistory {
                batch_id: u64_of(&h["batch_id"]),
                time: u64_of(&h["time"]),
                bsei_amount: u(&h["bsei_amount"]),
                bsei_applied_exchange_rate: dec(&h["bsei_applied_exchange_rate"]),
                bsei_withdraw_rate: dec(&h["bsei_withdraw_rate"]),
                stsei_amount: u(&h["stsei_amount"]),
                stsei_applied_exchange_rate: dec(&h["stsei_applied_exchange_rate"]),
                stsei_withdraw_rate: dec(&h["stsei_withdraw_rate"]),
                released: h["released"].as_bool().unwrap_or(false),
            };
            store_unbond_history(storage, hist.batch_id, hist).unwrap();
        }
    }
    if let Some(Value::Array(ws)) = st.get("waits") {
        for w in ws {
            let b = u(&w["bsei"]);
            let st_ = u(&w["stsei"]);
            // the entry must exist even when both amounts are zero
            store_unbond_wait_list(storage, u64_of(&w["batch"]), s(&w["addr"]), b, UnbondType::BSei).unwrap();
            store_unbond_wait_list(storage, u64_of(&w["batch"]), s(&w["addr"]), st_, UnbondType::StSei).unwrap();
        }
    }
    if let Some(Value::Array(ws)) = st.get("old_waits") {
        let mut bucket: Bucket<Uint128> = Bucket::multilevel(storage, &[b"wait"]);
        for w in ws {
            bucket.save(s(&w["key"]).as_bytes(), &u(&w["amount"])).unwrap();
        }
    }
}

fn atomics(d: Decimal) -> String {
    d.atomics().to_string()
}

fn dump_storage(storage: &dyn Storage, api: &MockApi, addrs: &[String]) -> Value {
    let mut out = serde_json::Map::new();
    if let Ok(c) = CONFIG.load(storage) {
        let h = |x: &Option<cosmwasm_std::CanonicalAddr>| match x {
            Some(a) => Value::String(api.addr_humanize(a).unwrap().to_string()),
            None => Value::Null,
        };
        out.insert(
            "config".into(),
            json!({"creator": api.addr_humanize(&c.creator).unwrap().to_string(),
               "update_reward_index_addr": api.addr_humanize(&c.update_reward_index_addr).unwrap().to_string(),
               "reward_dispatcher_contract": h(&c.reward_dispatcher_contract),
               "validators_registry_contract": h(&c.validators_registry_contract),
               "bsei_token_contract": h(&c.bsei_token_contract),
               "stsei_token_contract": h(&c.stsei_token_contract),
               "airdrop_registry_contract": h(&c.airdrop_registry_contract),
               "rewards_contract": h(&c.rewards_contract)}),
        );
    }
    if let Ok(x) = STATE.load(storage) {
        out.insert(
            "state".into(),
            json!({"bsei_exchange_rate": atomics(x.bsei_exchange_rate), "stsei_exchange_rate": atomics(x.stsei_exchange_rate),
               "total_bond_bsei_amount": x.total_bond_bsei_amount.to_string(),
               "total_bond_stsei_amount": x.total_bond_stsei_amount.to_string(),
               "last_index_modification": x.last_index_modification, "prev_hub_balance": x.prev_hub_balance.to_string(),
               "last_unbonded_time": x.last_unbonded_time, "last_processed_batch": x.last_processed_batch}),
        );
    }
    if let Ok(x) = PARAMETERS.load(storage) {
        out.insert(
            "params".into(),
            json!({"epoch_period": x.epoch_period, "underlying_coin_denom": x.underlying_coin_denom,
               "unbonding_period": x.unbonding_period, "peg_recovery_fee": atomics(x.peg_recovery_fee),
               "er_threshold": atomics(x.er_threshold), "reward_denom": x.reward_denom, "paused": x.paused}),
        );
    }
    if let Ok(x) = CURRENT_BATCH.load(storage) {
        out.insert(
            "current_batch".into(),
            json!({"id": x.id, "requested_bsei_with_fee": x.requested_bsei_with_fee.to_string(),
               "requested_stsei": x.requested_stsei.to_string()}),
        );
    }
    if let Ok(o) = read_new_owner(storage) {
        out.insert("new_owner".into(), Value::String(api.addr_humanize(&o.new_owner_addr).unwrap().to_string()));
    }
    if let Ok(hs) = all_unbond_history(storage, None, Some(100)) {
        let v: Vec<Value> = hs
            .iter()
            .map(|h| {
                json!({"batch_id": h.batch_id, "time": h.time, "bsei_amount": h.bsei_amount.to_string(),
                "bsei_applied_exchange_rate": atomics(h.bsei_applied_exchange_rate),
                "bsei_withdraw_rate": atomics(h.bsei_withdraw_rate), "stsei_amount": h.stsei_amount.to_string(),
                "stsei_applied_exchange_rate": atomics(h.stsei_applied_exchange_rate),
                "stsei_withdraw_rate": atomics(h.stsei_withdraw_rate), "released": h.released})
            })
            .collect();
        out.insert("histories".into(), Value::Array(v));
    }
    let mut waits = vec![];
    for a in addrs {
        if let Ok(reqs) = get_unbond_requests(storage, a.clone()) {
            for (b, bs, ss) in reqs {
                waits.push(json!({"addr": a, "batch": b, "bsei": bs.to_string(), "stsei": ss.to_string()}));
            }
        }
    }
    out.insert("waits".into(), Value::Array(waits));
    Value::Object(out)
}

fn env_from(v: &Value, hub: &str) -> Env {
    let mut env = mock_env();
    env.block.time = Timestamp::from_seconds(u64_of(&v["time"]));
    if let Some(h) = v.get("height") {
        env.block.height = u64_of(h);
    }
    env.contract.address = Addr::unchecked(hub);
    env
}

fn info_from(v: &Value) -> MessageInfo {
    let funds: Vec<Coin> = v
        .get("funds")
        .and_then(|x| x.as_array())
        .cloned()
        .unwrap_or_default()
        .iter()
        .map(|c| Coin { denom: s(&c["denom"]), amount: u(&c["amount"]) })
        .collect();
    MessageInfo { sender: Addr::unchecked(s(&v["sender"])), funds }
}

pub fn response_json(r: &cosmwasm_std::Response) -> Value {
    // messages with their inner JSON payload decoded
    let mut v = serde_json::to_value(r).unwrap();
    fn walk(x: &mut Value) {
        match x {
            Value::Object(m) => {
                if let Some(Value::String(b64)) = m.get("msg").cloned() {
                    if let Ok(bin) = Binary::from_base64(&b64) {
                        if let Ok(inner) = serde_json::from_slice::<Value>(bin.as_slice()) {
                            m.insert("msg".into(), inner);
                        }
                    }
                }
                for (_, vv) in m.iter_mut() {
                    walk(vv);
                }
            }
            Value::Array(a) => {
                for vv in a.iter_mut() {
                    walk(vv);
                }
            }
            _ => {}
        }
    }
    walk(&mut v);
    v
}

pub fn run(v: &Value) -> Value {
    let hub = v["env"].get("contract").map(s).unwrap_or("hub_contract".to_string());
    let facts = facts_from(&v["querier"], &hub);
    let mut deps: OwnedDeps<MockStorage, MockApi, Facts, Empty> =
        OwnedDeps { storage: MockStorage::default(), api: MockApi::default(), querier: facts, custom_query_type: PhantomData };
    let api = MockApi::default();
    load_storage(&mut deps.storage, &api, &v["storage"]);
    let env = env_from(&v["env"], &hub);
    let addrs: Vec<String> = v.get("dump_addrs").and_then(|x| x.as_array()).cloned().unwrap_or_default().iter().map(s).collect();
    let mut out = serde_json::Map::new();
    // state as every handler will see it after its slashing synchronisation
    if v.get("storage").and_then(|x| x.get("state")).is_some() {
        if let Ok(b) = query(deps.as_ref(), env.clone(), QueryMsg::State {}) {
            let st: Value = serde_json::from_slice(b.as_slice()).unwrap();
            out.insert("synced_state".into(), st);
        }
    }
    // a sequence of steps; each step = {entry, info, msg, env?}
    let steps: Vec<Value> = match v.get("steps") {
        Some(Value::Array(a)) => a.clone(),
        _ => vec![json!({"entry": v["entry"], "info": v["info"], "msg": v["msg"]})],
    };
    let mut results = vec![];
    for step in steps.iter() {
        let entry = step["entry"].as_str().unwrap_or("execute");
        let env2 = if step.get("env").is_some() { env_from(&step["env"], &hub) } else { env.clone() };
        let r: Value = match entry {
            "instantiate" => {
                let m: Result<InstantiateMsg, _> = serde_json::from_value(step["msg"].clone());
                match m {
                    Err(e) => json!({"msg_error": e.to_string()}),
                    Ok(m) => match instantiate(deps.as_mut(), env2, info_from(&step["info"]), m) {
                        Ok(resp) => json!({"ok": response_json(&resp)}),
                        Err(e) => json!({"err": e.to_string()}),
                    },
                }
            }
            "execute" => {
                let m: Result<ExecuteMsg, _> = serde_json::from_value(step["msg"].clone());
                match m {
                    Err(e) => json!({"msg_error": e.to_string()}),
                    Ok(m) => {
                        // transactional semantics: a failing execute leaves storage untouched
                        let snapshot: Vec<(Vec<u8>, Vec<u8>)> =
                            deps.storage.range(None, None, cosmwasm_std::Order::Ascending).collect();
                        let res = std::panic::catch_unwind(std::panic::AssertUnwindSafe(|| {
                            execute(deps.as_mut(), env2, info_from(&step["info"]), m)
                        }));
                        match res {
                            Ok(Ok(resp)) => json!({"ok": response_json(&resp)}),
                            other => {
                                let keys: Vec<Vec<u8>> = deps
                                    .storage
                                    .range(None, None, cosmwasm_std::Order::Ascending)
                                    .map(|(k, _)| k)
                                    .collect();
                                for k in keys {
                                    deps.storage.remove(&k);
                                }
                                for (k, val) in snapshot {
                                    deps.storage.set(&k, &val);
                                }
                                match other {
                                    Ok(Err(e)) => json!({"err": e.to_string()}),
                                    Err(_) => json!({"panic": "panic in execute"}),
                                    _ => unreachable!(),
                                }
                            }
                        }
                    }
                }
            }
            "query" => {
                let m: Result<QueryMsg, _> = serde_json::from_value(step["msg"].clone());
                match m {
                    Err(e) => json!({"msg_error": e.to_string()}),
                    Ok(m) => match query(deps.as_ref(), env2, m) {
                        Ok(b) => json!({"ok": serde_json::from_slice::<Value>(b.as_slice()).unwrap_or(Value::Null)}),
                        Err(e) => json!({"err": e.to_string()}),
                    },
                }
            }
            _ => json!({"error": "unknown entry"}),
        };
        results.push(r);
    }
    out.insert("results".into(), Value::Array(results.clone()));
    out.insert("result".into(), results.last().cloned().unwrap_or(Value::Null));
    out.insert("storage".into(), dump_storage(&deps.storage, &api, &addrs));
    let _ = (QuerierWrapper::<Empty>::new(&deps.querier), DepsMut::<Empty>::branch, Deps::<Empty>::clone);
    Value::Object(out)
}
