// Generic scenarios: raw storage in, raw storage out, for every contract of the workspace.
use crate::hub::{facts_from, response_json, Facts};
use cosmwasm_std::testing::{mock_env, MockApi, MockStorage};
use cosmwasm_std::{Addr, Binary, Coin, Empty, Env, MessageInfo, OwnedDeps, Storage, Timestamp, Uint128};
use serde_json::{json, Value};
use std::marker::PhantomData;

fn s(v: &Value) -> String {
    v.as_str().unwrap_or("").to_string()
}

fn u64_of(v: &Value) -> u64 {
    match v {
        Value::String(x) => x.parse::<u64>().expect("u64"),
        Value::Number(n) => n.as_u64().expect("u64"),
        _ => 0,
    }
}

fn env_from(v: &Value, me: &str) -> Env {
    let mut env = mock_env();
    env.block.time = Timestamp::from_seconds(u64_of(&v["time"]));
    if v.get("height").is_some() {
        env.block.height = u64_of(&v["height"]);
    }
    env.contract.address = Addr::unchecked(me);
    env
}

fn info_from(v: &Value) -> MessageInfo {
    let funds: Vec<Coin> = v
        .get("funds")
        .and_then(|x| x.as_array())
        .cloned()
        .unwrap_or_default()
        .iter()
        .map(|c| Coin { denom: s(&c["denom"]), amount: Uint128::new(s(&c["amount"]).parse::<u128>().unwrap_or(0)) })
        .collect();
    MessageInfo { sender: Addr::unchecked(s(&v["sender"])), funds }
}

macro_rules! run_entry {
    ($deps:expr, $env:expr, $step:expr, $inst:path, $exec:path, $query:path, $im:ty, $em:ty, $qm:ty) => {{
        let entry = $step["entry"].as_str().unwrap_or("execute");
        match entry {
            "instantiate" => match serde_json::from_value::<$im>($step["msg"].clone()) {
                Err(e) => json!({"msg_error": e.to_string()}),
                Ok(m) => match $inst($deps.as_mut(), $env, info_from(&$step["info"]), m) {
                    Ok(resp) => json!({"ok": response_json(&resp)}),
                    Err(e) => json!({"err": e.to_string()}),
                },
            },
            "execute" => match serde_json::from_value::<$em>($step["msg"].clone()) {
                Err(e) => json!({"msg_error": e.to_string()}),
                Ok(m) => match $exec($deps.as_mut(), $env, info_from(&$step["info"]), m) {
                    Ok(resp) => json!({"ok": response_json(&resp)}),
                    Err(e) => json!({"err": e.to_string()}),
                },
            },
            "query" => match serde_json::from_value::<$qm>($step["msg"].clone()) {
                Err(e) => json!({"msg_error": e.to_string()}),
                Ok(m) => match $query($deps.as_ref(), $env, m) {
                    Ok(b) => json!({"ok": serde_json::from_slice::<Value>(b.as_slice()).unwrap_or(Value::Null)}),
                    Err(e) => json!({"err": e.to_string()}),
                },
            },
            _ => json!({"error": "unknown entry"}),
        }
    }};
}

macro_rules! run_migrate {
    ($deps:expr, $env:expr, $step:expr, $mig:path, $mm:ty) => {{
        match serde_json::from_value::<$mm>($step["msg"].clone()) {
            Err(e) => json!({"msg_error": e.to_string()}),
            Ok(m) => match $mig($deps.as_mut(), $env, m) {
                Ok(resp) => json!({"ok": response_json(&resp)}),
                Err(e) => json!({"err": e.to_string()}),
            },
        }
    }};
}

pub fn canonicalize(v: &Value) -> Value {
    use cosmwasm_std::Api;
    let api = MockApi::default();
    let out: Vec<Value> = v["addresses"]
        .as_array()
        .cloned()
        .unwrap_or_default()
        .iter()
        .map(|a| match api.addr_canonicalize(&s(a)) {
            Ok(c) => Value::String(Binary::from(c.as_slice()).to_base64()),
            Err(e) => json!({"err": e.to_string()}),
        })
        .collect();
    json!({"canonical": out})
}

pub fn run(v: &Value) -> Value {
    let contract = s(&v["contract"]);
    let me = v["env"].get("contract").map(s).unwrap_or(format!("{}_contract", contract));
    let facts: Facts = facts_from(&v["querier"], &me);
    let mut deps: OwnedDeps<MockStorage, MockApi, Facts, Empty> =
        OwnedDeps { storage: MockStorage::default(), api: MockApi::default(), querier: facts, custom_query_type: PhantomData };
    if let Some(Value::Array(items)) = v.get("storage") {
        for kv in items {
            let k = Binary::from_base64(&s(&kv[0])).expect("key b64");
            let val = Binary::from_base64(&s(&kv[1])).expect("value b64");
            deps.storage.set(k.as_slice(), val.as_slice());
        }
    }
    let env = env_from(&v["env"], &me);
    let steps: Vec<Value> = match v.get("steps") {
        Some(Value::Array(a)) => a.clone(),
        _ => vec![json!({"entry": v["entry"], "info": v["info"], "msg": v["msg"]})],
    };
    let mut results = vec![];
    for step in steps.iter() {
        let env2 = if step.get("env").is_some() { env_from(&step["env"], &me) } else { env.clone() };
        let snapshot: Vec<(Vec<u8>, Vec<u8>)> = deps.storage.range(None, None, cosmwasm_std::Order::Ascending).collect();
        let is_migrate = step["entry"].as_str() == Some("migrate");
        let res = std::panic::catch_unwind(std::panic::AssertUnwindSafe(|| match contract.as_str() {
            "hub" if is_migrate => run_migrate!(deps, env2, step, basset_sei_hub::contract::migrate, basset::hub::MigrateMsg),
            "dispatcher" if is_migrate => run_migrate!(deps, env2, step, basset_sei_rewards_dispatcher::contract::migrate,
                basset_sei_rewards_dispatcher::msg::MigrateMsg),
            "reward" if is_migrate => run_migrate!(deps, env2, step, basset_sei_reward::contract::migrate, basset::reward::MigrateMsg),
            "registry" if is_migrate => run_migrate!(deps, env2, step, basset_sei_validators_registry::contract::migrate,
                basset_sei_validators_registry::msg::MigrateMsg),
            "bsei" if is_migrate => run_migrate!(deps, env2, step, basset_sei_token_bsei::contract::migrate,
                basset_sei_token_bsei::msg::MigrateMsg),
            "hub" => run_entry!(deps, env2, step, basset_sei_hub::contract::instantiate, basset_sei_hub::contract::execute,
                basset_sei_hub::contract::query, basset::hub::InstantiateMsg, basset::hub::ExecuteMsg, basset::hub::QueryMsg),
            "dispatcher" => run_entry!(deps, env2, step, basset_sei_rewards_dispatcher::contract::instantiate,
                basset_sei_rewards_dispatcher::contract::execute, basset_sei_rewards_dispatcher::contract::query,
                basset_sei_rewards_dispatcher::msg::InstantiateMsg, basset_sei_rewards_dispatcher::msg::ExecuteMsg,
                basset_sei_rewards_dispatcher::msg::QueryMsg),
            "reward" => run_entry!(deps, env2, step, basset_sei_reward::contract::instantiate, basset_sei_reward::contract::execute,
                basset_sei_reward::contract::query, basset::reward::InstantiateMsg, basset::reward::ExecuteMsg, basset::reward::QueryMsg),
            "registry" => run_entry!(deps, env2, step, basset_sei_validators_registry::contract::instantiate,
                basset_sei_validators_registry::contract::execute, basset_sei_validators_registry::contract::query,
                basset_sei_validators_registry::msg::InstantiateMsg, basset_sei_validators_registry::msg::ExecuteMsg,
                basset_sei_validators_registry::msg::QueryMsg),
            "bsei" => run_entry!(deps, env2, step, basset_sei_token_bsei::contract::instantiate, basset_sei_token_bsei::contract::execute,
                basset_sei_token_bsei::contract::query, basset_sei_token_bsei::msg::TokenInitMsg, cw20_legacy::msg::ExecuteMsg,
                cw20_legacy::msg::QueryMsg),
            "stsei" => run_entry!(deps, env2, step, basset_sei_token_stsei::contract::instantiate, basset_sei_token_stsei::contract::execute,
                basset_sei_token_stsei::contract::query, basset_sei_token_stsei::msg::TokenInitMsg, cw20_base::msg::ExecuteMsg,
                cw20_base::msg::QueryMsg),
            _ => json!({"error": "unknown contract"}),
        }));
        let r = match res {
            Ok(x) => x,
            Err(_) => json!({"panic": "panic in entry point"}),
        };
        if r.get("ok").is_none() {
            // transactional semantics: a failing call leaves storage untouched
            let keys: Vec<Vec<u8>> = deps.storage.range(None, None, cosmwasm_std::Order::Ascending).map(|(k, _)| k).collect();
            for k in keys {
                deps.storage.remove(&k);
            }
            for (k, val) in snapshot {
                deps.storage.set(&k, &val);
            }
        }
        results.push(r);
    }
    let dump: Vec<Value> = deps
        .storage
        .range(None, None, cosmwasm_std::Order::Ascending)
        .map(|(k, val)| json!([Binary::from(k).to_base64(), Binary::from(val).to_base64()]))
        .collect();
    json!({"results": results.clone(), "result": results.last().cloned().unwrap_or(Value::Null), "storage": dump})
}
