#!/bin/bash
# Offline setup: build the replay runner against /repo and warm the MIR dependency cache.
set -e
cd "$(dirname "$0")"
export CARGO_NET_OFFLINE=true
mkdir -p .cache .work
echo "[setup] building replay runner"
CARGO_TARGET_DIR=$PWD/.cache/replay-target cargo build --release --offline --manifest-path replay/Cargo.toml 2>&1 | tail -2
echo "[setup] warming MIR cache"
python3-vt - <<'PY'
import sys
sys.path.insert(0, '.')
from smir import engine
w = engine.prepare(None)
print('[setup] MIR dump of all crates: %s s %s' % (w['dump_s'], w['times']))
engine.cleanup(w)
PY
echo "[setup] done"
