#!/usr/bin/env python3
# regenerate MANIFEST.json from the list of built checks
import json, sys
DONE = {
 'C01': 'WithdrawUnbonded from an arbitrary INV-HUB state with 1..2 matured batches (+ an already released one): payable <= arrived, dust bound, payout = recorded share at final rates, H5 preserved, claims removed / never paid twice, never fails for funds, order independence by non-interference; arithmetic kernels checked against closed forms',
 'C02': 'books <= delegations after every pricing operation; Delegate messages = payment to registered validators; undelegation removes exactly what it undelegates',
 'C03': 'State query and every handler price with pool/(supply+requests); mint/convert/undelegate amounts are the floor formulas; roundings favour the pool; zero payments rejected',
 'C04': 'for every hub operation the post-transaction rate of both tokens is not below the synchronised pre-rate (known finding: zero-pool corner)',
 'C05': 'peg fee: none at/above threshold, 0 <= fee <= amount x rate, never over-collects past the peg (known finding: convert bSei->stSei)',
 'C06': 'slashing synchronisation: booked = delegated exactly, pools within 2 units of pro-rata share, unchanged without slashing',
 'C07': 'Receive(Unbond) for both tokens with a symbolic cw20 sender: claim = amount (less peg fee) under (sender, open batch) only, batch/history totals = sum of claims, exact Burn; no other message deletes or writes claims; withdrawal removes only released claims of the caller; queries report stored entries',
 'C08': 'time-lock (release only when time + unbonding_period <= now, boundary seconds witnessed), undelegation only after more than an epoch and exactly once per batch id, released history entries never written by any message',
 'C09': 'Receive(Unbond) of 1 <= amount <= supply from any INV-HUB state with stake delegated: every error / panic path infeasible (known finding: zero-pool corner); bond/unbond/convert/withdraw, token transfers and reward claims never query or call swap / oracle (query and message log of every path)',
 'C10': 'every privileged message variant of all six contracts: no Ok path for a sender that is not the designated principal (symbolic sender/message/stored principals); two-step ownership transfer',
 'C11': 'paused hub: every variant except UpdateParams/MigrateUnbondWaitList has no Ok path for any sender; no unpause with legacy entries; queries never read the pause flag',
 'C13': 'registry RemoveValidator (1..3 validators, symbolic address/delegation/can_redelegate): validator gone, never the last one, one RedelegateProxy moving the whole delegation to remaining registered validators + UpdateGlobalIndex; hub proxy forwards 1:1',
 'C14': 'reward contract: INV-RW (sum accrued <= recorded <= bank; sum balances = total) inductive over every message; claim pays whole units and keeps the fraction; index update strands < 1 unit',
 'C15': 'reward contract: per-step frame/settle/proportionality equalities in exact atomics + paired executions (both orders) of independent operations',
 'C16': 'bSei token: per address the balance change equals the net of the Increase/Decrease messages sent first to the reward contract; reward side changes holder and total by exactly the amount',
 'C17': 'dispatcher: swap offer <= held and stSei-side share after swap (oracle price), DispatchRewards keeper = floor(balance x rate), everything forwarded, order; known finding: zero-coin sends',
 'C18': 'both tokens: instantiate (0..3 possibly repeated addresses) and every execute variant conserve sum(balances) = total_supply; mint/burn only hub; allowance limits and expiry; CheckSlashing on burns',
 'C19': 'hub UpdateGlobalIndex (0..3 delegations): one reward withdrawal per delegation, swap request with the booked totals, dispatch, only last_index_modification written; BondRewards raises only the stSei pool/rate and mints nothing; linked symbolic transaction hub -> distribution -> dispatcher (swap stub) -> reward contract: nothing left behind, holders gain the delivered amount within dust (known finding: zero-coin revert)',
 'C20': 'instantiate + every update message with independently optional fields: stored fee/threshold/keeper rate <= 1, fixed denominations, omitted fields unchanged',
 'C12': 'delegation / undelegation kernels: conservation, balance bounds, termination, error exactly when request > total',
}
props=[json.loads(l) for l in open('/verif/properties.jsonl')]
NA = {}
try:
    NA = json.load(open('/verif/not_applicable.json'))
except Exception:
    pass
checks=[]
for p in props:
    if p['id'] in DONE:
        checks.append({
          "property_id":p['id'],
          "quick_cmd":"./check %s --tier quick"%p['id'],
          "thorough_cmd":"./check %s --tier thorough"%p['id'],
          "evidence_file":"/verif/evidence/%s.json"%p['id'],
          "replay_cmd_template":"./check %s --replay {path}"%p['id'],
          "engine":"smir",
          "level_claimed":{"category":"model_checking","text":"bounded symbolic execution of the rustc MIR of the real entry points from a symbolic pre-state (one transaction = one inductive step); every path's negated claim is discharged by z3 over all integer values within the stated envelope and counts: "+DONE[p['id']],"design_ref":"DESIGN.md section 5 (%s)"%p['id']},
          "level_note":"trusted: rustc MIR, SMIR interpreter and summaries (DESIGN 3.3), environment model (3.4), z3; bounds, assumptions and outside-claim list are written to the evidence file on every run",
          "technique":"symbolic execution of the rustc MIR of the real entry points, regenerated from /repo on every run; every claim on every path is a z3 query (Int theory, division by lemma) decided for all integers within the stated envelope; counterexamples are replayed on the compiled contracts before a VIOLATION is reported, and path models of proved claims are replayed as encoder validation"})
m={"version":1,"setup_cmd":"./setup.sh",
   "hooks":{"guard":"krp_staking_verif","enable":"no source hooks are needed (MIR exposes private functions; replay uses public entry points)","baseline_off_cmd":"cd /repo && cargo test --workspace --no-fail-fast --offline","source_commits":[],"add_only":True},
   "engines":[{"name":"smir","path":"/verif/smir","serves_properties":sorted(DONE),"kind_free_text":"symbolic executor for rustc MIR (-Zunpretty=mir) over z3 Int theory, written for this task; Rust replay runner in /verif/replay"}],
   "checks":checks,
   "not_applicable":[{"property_id":p['id'],"reason":NA.get(p['id'],"check not built yet (work in progress, see DESIGN.md section 5)")} for p in props if p['id'] not in DONE],
   "notes":"see DESIGN.md; known findings in known_findings.json"}
json.dump(m,open('/verif/MANIFEST.json','w'),indent=1)
print('manifest: %d checks, %d not applicable'%(len(checks),len(m['not_applicable'])))
