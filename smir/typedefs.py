# Struct / enum definitions (field and variant order, field types) parsed from Rust sources.
# Needed to (i) number enum variants the way rustc does, (ii) build symbolic values of a type,
# (iii) convert a message between the sender's and the receiver's Rust type through serde's
# wire names in linked runs.
import os
import re
import glob

from .mirparse import split_top, skip_balanced


class TypeDef:
    def __init__(self, crate, module, name, kind):
        self.crate = crate
        self.module = module      # tuple of module path segments
        self.name = name
        self.kind = kind          # 'struct' | 'enum'
        self.fields = []          # struct: [(name|None, type)]
        self.variants = []        # enum: [(name, kind, [(fname|None, type)])]
        self.rename_all = None

    def variant_index(self, vname):
        for i, v in enumerate(self.variants):
            if v[0] == vname:
                return i
        return None

    def field_index(self, fname):
        for i, f in enumerate(self.fields):
            if f[0] == fname:
                return i
        raise KeyError('%s has no field %s' % (self.name, fname))

    def __repr__(self):
        return '<TypeDef %s::%s::%s>' % (self.crate, '::'.join(self.module), self.name)


def strip_comments(src):
    out = []
    i = 0
    n = len(src)
    while i < n:
        c = src[i]
        if c == '"':
            j = i + 1
            while j < n and src[j] != '"':
                if src[j] == '\\':
                    j += 1
                j += 1
            out.append(src[i:j + 1])
            i = j + 1
        elif src.startswith('//', i):
            j = src.find('\n', i)
            if j < 0:
                j = n
            i = j
        elif src.startswith('/*', i):
            j = src.find('*/', i)
            i = j + 2 if j >= 0 else n
        elif c == "'" and i + 2 < n and (src[i + 2] == "'" or (src[i + 1] == '\\' and src.find("'", i + 2) - i <= 4)):
            j = src.find("'", i + 2)
            out.append(src[i:j + 1])
            i = j + 1
        else:
            out.append(c)
            i += 1
    return ''.join(out)


def strip_attrs(s):
    """remove #[...] attributes (balanced) from a string, return (string, attrs)"""
    out = []
    attrs = []
    i = 0
    n = len(s)
    while i < n:
        if s[i] == '#' and i + 1 < n and s[i + 1] in '[!':
            j = s.index('[', i)
            e = skip_balanced(s, j)
            attrs.append(s[j:e])
            i = e
        else:
            out.append(s[i])
            i += 1
    return ''.join(out), attrs


def parse_fields(body):
    fields = []
    body, _ = strip_attrs(body)
    for part in split_top(body):
        part = part.strip()
        if not part:
            continue
        part = re.sub(r'^pub(\([^)]*\))?\s+', '', part)
        m = re.match(r'(r#)?(\w+)\s*:\s*(.*)$', part, re.S)
        if m:
            fields.append((m.group(2), ' '.join(m.group(3).split())))
    return fields


def parse_tuple_fields(body):
    body, _ = strip_attrs(body)
    out = []
    for part in split_top(body):
        part = re.sub(r'^pub(\([^)]*\))?\s+', '', part.strip())
        if part:
            out.append((None, ' '.join(part.split())))
    return out


ITEM_RE = re.compile(r'\b(struct|enum)\s+(\w+)\s*(<[^{(;]*>)?\s*(where[^{(;]*)?([{(;])')


def parse_source(src, crate, module, defs):
    src = strip_comments(src)
    for m in ITEM_RE.finditer(src):
        kind, name, opener = m.group(1), m.group(2), m.group(5)
        # attributes preceding the item (for rename_all)
        pre = src[max(0, m.start() - 400):m.start()]
        td = TypeDef(crate, module, name, kind)
        tail = pre.split(';')[-1].split('}')[-1]
        rm = re.findall(r'rename_all\s*=\s*"(\w+)"', tail)
        if rm:
            td.rename_all = rm[-1]
        elif 'cw_serde' in tail:
            td.rename_all = 'snake_case'        # #[cw_serde] = serde(rename_all = "snake_case", deny_unknown_fields)
        if opener == ';':
            defs.append(td)
            continue
        start = m.end() - 1
        end = skip_balanced(src, start)
        body = src[start + 1:end - 1]
        if kind == 'struct':
            td.fields = parse_fields(body) if opener == '{' else parse_tuple_fields(body)
        else:
            body2, _ = strip_attrs(body)
            for part in split_top(body2):
                part = part.strip()
                if not part:
                    continue
                vm = re.match(r'(\w+)\s*(.*)$', part, re.S)
                vname, rest = vm.group(1), vm.group(2).strip()
                if rest.startswith('{'):
                    td.variants.append((vname, 'struct', parse_fields(rest[1:skip_balanced(rest, 0) - 1])))
                elif rest.startswith('('):
                    td.variants.append((vname, 'tuple', parse_tuple_fields(rest[1:skip_balanced(rest, 0) - 1])))
                else:
                    td.variants.append((vname, 'unit', []))
        defs.append(td)


def module_of(path, srcroot):
    rel = os.path.relpath(path, srcroot)
    parts = rel[:-3].split(os.sep)
    if parts[-1] in ('mod', 'lib'):
        parts = parts[:-1]
    return tuple(parts)


BUILTIN = """
enum Option { None, Some(T) }
enum Result { Ok(T), Err(E) }
enum ControlFlow { Continue(C), Break(B) }
enum Ordering { Less, Equal, Greater }
enum Cow { Borrowed(B), Owned(O) }
enum Bound { Included(T), Excluded(T), Unbounded }
struct Range { start: T, end: T }
struct RangeInclusive { start: T, end: T, exhausted: bool }
"""


class TypeTable:
    def __init__(self):
        self.defs = []
        self.byname = {}
        self.crates = set()

    def add_crate(self, crate, srcroot):
        self.crates.add(crate)
        for path in glob.glob(os.path.join(srcroot, '**', '*.rs'), recursive=True):
            if os.sep + 'testing' + os.sep in path or path.endswith('tests.rs') or 'mock_querier' in path:
                continue
            with open(path, errors='replace') as f:
                src = f.read()
            parse_source(src, crate, module_of(path, srcroot), self.defs)

    def add_builtin(self):
        parse_source(BUILTIN, 'core', (), self.defs)

    def index(self):
        self.byname = {}
        for d in self.defs:
            self.byname.setdefault(d.name, []).append(d)

    def lookup(self, tystr, cur_crate=None):
        """resolve a MIR type string (possibly trimmed path, generics, refs) to a TypeDef or None"""
        base = base_path(tystr)
        if base is None:
            return None
        segs = base.split('::')
        name = segs[-1]
        cands = self.byname.get(name)
        if not cands:
            return None
        if len(cands) == 1:
            return cands[0]
        pre = segs[:-1]
        if pre:
            c0 = pre[0].replace('-', '_')
            hit = [d for d in cands if d.crate == c0]
            if hit:
                if len(hit) == 1:
                    return hit[0]
                mod = tuple(pre[1:])
                h2 = [d for d in hit if d.module[-len(mod):] == mod] if mod else hit
                if h2:
                    return h2[0]
                return hit[0]
            mod = tuple(pre)
            own = [d for d in cands if d.crate == cur_crate and d.module[-len(mod):] == mod]
            if own:
                return own[0]
            anyc = [d for d in cands if d.module[-len(mod):] == mod]
            if len(anyc) >= 1:
                return anyc[0]
        own = [d for d in cands if d.crate == cur_crate]
        if own:
            return own[0]
        # prefer well-known external crates for bare names
        for pref in ('cosmwasm_std', 'cw20', 'core'):
            h = [d for d in cands if d.crate == pref]
            if h:
                return h[0]
        return cands[0]


def base_path(tystr):
    """'&mut std::option::Option<Foo>' -> 'std::option::Option'"""
    s = tystr.strip()
    while True:
        if s.startswith('&'):
            s = s[1:].lstrip()
            if s.startswith("'"):
                s = s.split(' ', 1)[1] if ' ' in s else ''
            if s.startswith('mut '):
                s = s[4:]
            continue
        if s.startswith('*const ') or s.startswith('*mut '):
            s = s.split(' ', 1)[1]
            continue
        break
    if not s or s[0] in '([{<':
        return None
    m = re.match(r"([\w:]+?)(::)?<", s)
    if m:
        return m.group(1)
    m = re.match(r'[\w:]+', s)
    return m.group(0) if m else None


def generic_args(tystr):
    """'Option<Foo<A>, B>' -> ['Foo<A>', 'B'] (top-level generic args, lifetimes removed)"""
    s = tystr.strip()
    i = s.find('<')
    if i < 0 or not s.endswith('>'):
        return []
    inner = s[i + 1:-1]
    return [a for a in split_top(inner) if not a.startswith("'")]


def find_registry_src(name_prefix):
    pats = glob.glob(os.path.expanduser('~/.cargo/registry/src/*/%s*' % name_prefix))
    return sorted(pats)


def build_table(repo_src, extra=()):
    """repo_src: path of the working copy of the repository."""
    tt = TypeTable()
    tt.add_builtin()
    crates = {
        'basset': 'packages/basset/src',
        'signed_integer': 'packages/signed_integers/src',
        'cosmwasm_bignumber': 'packages/bignumber/src',
        'cw20_legacy': 'packages/cw20-legacy/src',
        'basset_sei_hub': 'contracts/basset_sei_hub/src',
        'basset_sei_reward': 'contracts/basset_sei_reward/src',
        'basset_sei_rewards_dispatcher': 'contracts/basset_sei_rewards_dispatcher/src',
        'basset_sei_validators_registry': 'contracts/basset_sei_validators_registry/src',
        'basset_sei_token_bsei': 'contracts/basset_sei_token_bsei/src',
        'basset_sei_token_stsei': 'contracts/basset_sei_token_stsei/src',
    }
    for c, p in crates.items():
        tt.add_crate(c, os.path.join(repo_src, p))
    for c, path in extra:
        tt.add_crate(c, path)
    tt.index()
    return tt
