# Check framework: obligations -> deferred SMT queries -> parallel solving -> verdicts.
#
# Phase 1 (one process per obligation): symbolic execution of the MIR; every claim on every path becomes a
#   Query (SMT-LIB2 text: sliced path condition + negated claims behind selector literals).
# Phase 2 (pool over all queries of the check): z3 decides each query; unknown answers are retried with
#   other configurations; in the thorough tier a sample of query classes is re-decided by cvc5.
# Phase 3: verdicts per obligation, vacuity (witness) accounting.
import os
import sys
import json
import time
import traceback
import subprocess
import multiprocessing as mp
import z3

from .values import *   # noqa
from .interp import Interp, State
from . import engine

VERIF = os.path.dirname(os.path.dirname(os.path.abspath(__file__)))

TIER_QUERY_MS = {'quick': 30000, 'thorough': 300000}
PATH_FEAS_MS = 4000
CONFIRM_PER_KEY = 2          # path models per claim group that are replayed on the real code as confirmations
CONFIRM_PER_OB = {'quick': 12, 'thorough': 40}


class Ob:
    """result accumulator of one obligation."""

    def __init__(self, name, tier, seed):
        self.name = name
        self.tier = tier
        self.seed = seed
        self.sat = 0
        self.unsat = 0
        self.unknown = 0
        self.solver_s = 0.0
        self.paths = 0
        self.blocks = 0
        self.feas_queries = 0
        self.forks = 0
        self.functions = set()
        self.summaries = set()
        self.witnesses = []
        self.missing_witness = []
        self.expect = []         # (label, [substrings]) evaluated after solving
        self.violations = []
        self.unknowns = []
        self.gaps = []
        self.notes = []
        self.samples = []
        self.wall = 0.0
        self.bounds = {}
        self.queries = []        # deferred queries (dicts)
        self.scenarios = []      # replay scenario templates
        self.scn_strings = []    # per scenario: the string table (live reference) of the interpreter that built it
        self.strings = {}

    def to_dict(self):
        d = dict(self.__dict__)
        d['scn_strings'] = [{str(k): v for k, v in t.items()} for t in self.scn_strings]
        d['functions'] = sorted(self.functions)
        d['summaries'] = sorted(self.summaries)
        return d


# ---------------------------------------------------------------------- slicing helpers
_VARS = {}


def vars_of(e):
    """frozenset of uninterpreted constant names in e (memoised on ast id)."""
    if isinstance(e, (bool, int)):
        return frozenset()
    eid = e.get_id()
    r = _VARS.get(eid)
    if r is not None:
        return r[1]
    out = set()
    stack = [e]
    seen = set()
    while stack:
        x = stack.pop()
        xid = x.get_id()
        if xid in seen:
            continue
        seen.add(xid)
        c = _VARS.get(xid)
        if c is not None:
            out |= c[1]
            continue
        if z3.is_app(x):
            if x.num_args() == 0:
                if x.decl().kind() == z3.Z3_OP_UNINTERPRETED:
                    out.add(x.decl().name())
            else:
                stack.extend(x.children())
    r = frozenset(out)
    _VARS[eid] = (e, r)       # keep the term alive: z3 reuses ast ids of collected terms
    return r


def slice_pc(pc, goal_vars):
    """constraints of pc transitively connected to goal_vars."""
    items = [(c, vars_of(c)) for c in pc if c is not True]
    keep = []
    cur = set(goal_vars)
    rest = items
    changed = True
    while changed:
        changed = False
        nxt = []
        for c, vs in rest:
            if vs & cur or not vs:
                keep.append(c)
                if not vs <= cur:
                    cur |= vs
                    changed = True
            else:
                nxt.append((c, vs))
        rest = nxt
    return keep


class Ctx:
    def __init__(self, ob, parsed, tier, seed):
        self.ob = ob
        self.parsed = parsed
        self.tier = tier
        self.seed = seed
        self.query_ms = TIER_QUERY_MS[tier]
        self.interps = []
        self.path_status = {}
        self.path_model = {}
        self.nq = 0
        self.scn = None
        self.scn_exprs = {}
        self.scn_dyn = None
        self.confirm_count = {}
        self.has_builder = False

    def interp(self, feas_timeout_ms=1500):
        I = engine.interp_from_parsed(self.parsed, feas_timeout_ms)
        I.solver.set('random_seed', self.seed & 0x7fffffff)
        self.interps.append(I)
        return I

    def absorb(self, I):
        s = I.stats
        self.ob.blocks += s.blocks
        self.ob.feas_queries += s.feas_queries
        self.ob.forks += s.forks
        self.ob.solver_s += s.solver_s
        self.ob.functions |= s.fns
        self.ob.summaries |= s.summaries
        I.stats = type(s)()

    # ------------------------------------------------------------------ path feasibility (makes slicing exact)
    def path_feasible(self, st):
        # cached on the state itself (python object ids are reused after garbage collection, so an id-keyed cache
        # can hand a stale verdict and model to a different path)
        r = st.ghost.get('_pf')
        if r is not None and r[1] == len(st.pc):
            self._pm = r[2]
            return r[0]
        s = z3.Solver()
        s.set('timeout', PATH_FEAS_MS)
        for c in st.pc:
            if c is not True:
                s.add(c)
        t0 = time.time()
        res = s.check()
        self.ob.solver_s += time.time() - t0
        out = 'sat' if res == z3.sat else ('unsat' if res == z3.unsat else 'unknown')
        pm = s.model() if res == z3.sat else None
        st.ghost['_pf'] = (out, len(st.pc), pm)
        self._pm = pm
        return out

    # ------------------------------------------------------------------ deferred queries
    def _emit(self, st, kind, claims, assume, model_vars, lemmas=True, expect=None):
        """claims: list of (formula-to-refute-negation-of | None, claim text, key).  kind: require|infeasible|witness"""
        pf = self.path_feasible(st)
        if pf == 'unsat':
            return
        scn_extra = None
        if st.ghost.get('lowers'):
            model_vars = dict(model_vars or {})
            for i_, (x_, r_) in enumerate(st.ghost['lowers']):
                model_vars['lower!%d!src' % i_] = x_
                model_vars['lower!%d!dst' % i_] = r_
        if self.scn is not None and (kind != 'witness' or expect is not None):
            mvx = dict(self.scn_exprs)
            if self.scn_dyn is not None:
                scn_extra, ex2 = self.scn_dyn(st)
                mvx.update(ex2)
            mvx.update(model_vars or {})
            model_vars = mvx
        assume = [a for a in assume if a is not True]
        if any(a is False for a in assume):
            if kind == 'witness':
                for _, claim, key in claims:
                    self.ob.queries.append({'kind': 'witness', 'const': 'unsat', 'claims': [(claim, key)]})
            return
        goal = []
        sels = []
        for i, (f, claim, key) in enumerate(claims):
            sel = z3.Bool('sel!%d' % i)
            if kind == 'require':
                if f is True:
                    continue
                body = z3.Not(f) if f is not False else z3.BoolVal(True)
            elif kind == 'infeasible':
                body = z3.BoolVal(True)
            else:   # witness: f is the region that must be reachable
                body = f if not isinstance(f, bool) else z3.BoolVal(f)
            goal.append(z3.Implies(sel, body))
            sels.append(('sel!%d' % i, claim, key))
        if not sels:
            return
        mvdefs = []
        mvnames = {}
        for label, v in (model_vars or {}).items():
            if isinstance(v, (int, bool)):
                mvnames[label] = ('const', v)
            elif z3.is_const(v) and v.decl().kind() == z3.Z3_OP_UNINTERPRETED:
                mvnames[label] = ('var', v.decl().name())
            else:
                nm = 'mv!%s' % label
                mvdefs.append((z3.Int(nm) if z3.is_int(v) else z3.Bool(nm)) == v)
                mvnames[label] = ('var', nm)
        gv = set()
        for g in goal + assume:
            gv |= vars_of(g)
        pc = [c for c in st.pc if c is not True]
        if pf == 'sat':
            kept = slice_pc(pc, gv)
        else:
            kept = pc
        extra = []
        if lemmas:
            extra = div_lemmas(st, set().union(*[vars_of(c) for c in kept + goal + assume]) if (kept or goal) else set())
        # model variables should not enlarge the slice: define them only when their variables are already in it
        allv = set()
        for c in kept + goal + assume:
            allv |= vars_of(c)
        mv_keep = [d for d in mvdefs if vars_of(d.arg(1)) <= allv]
        s = z3.Solver()
        for c in kept + assume + extra + goal + mv_keep:
            s.add(c)
        # variables outside the slice take their values from the model of the whole path condition
        base = {}
        pm = self._pm
        if pf == 'sat' and pm is not None:
            for label, v in (model_vars or {}).items():
                if isinstance(v, (int, bool)):
                    continue
                if not (vars_of(v) <= allv):
                    try:
                        base[label] = str(pm.eval(v, model_completion=True))
                    except Exception:   # noqa
                        pass
        # confirmation input: the model of the whole path condition is a concrete input on which SMIR says the claims
        # hold (when they are decided unsat); it is replayed on the real code through the module's oracle (encoder validation)
        confirm = None
        if kind == 'require' and (self.scn is not None or self.has_builder) and pf == 'sat' and pm is not None:
            keys = tuple(k for _, _, k in sels)
            cnt = self.confirm_count.get(keys, 0)
            if cnt < CONFIRM_PER_KEY:
                self.confirm_count[keys] = cnt + 1
                try:
                    full = {}
                    for label, v in (model_vars or {}).items():
                        full[label] = v if isinstance(v, (int, bool)) else str(pm.eval(v, model_completion=True))
                    holds = []
                    for f, _, _ in claims:
                        if f is True:
                            continue
                        holds.append(False if f is False else z3.is_true(pm.eval(f, model_completion=True)))
                    a_ok = all(z3.is_true(pm.eval(a, model_completion=True)) for a in assume if not isinstance(a, bool))
                    if a_ok:
                        confirm = {'model': full, 'holds': holds}
                except Exception:   # noqa
                    confirm = None
        self.nq += 1
        self.ob.queries.append({'kind': kind, 'text': s.to_smt2(), 'sels': sels, 'mv': mvnames, 'base': base, 'scn': self.scn, 'expect': expect, 'scn_extra': scn_extra,
                                'sliced': pf == 'sat', 'size': len(kept), 'full': len(pc), 'confirm': confirm})

    def set_scenario(self, templ, scenario, dynamic=None):
        """register the replay scenario template of the current world (templ: tojson.Templ that built it).
        dynamic(st) -> (extra raw-storage items, exprs): storage entries that only exist on a given path
        (lazily initialised accounts / allowances)."""
        self.scn_dyn = dynamic
        self.ob.scenarios.append(scenario)
        self.ob.scn_strings.append(templ.I.strings_rev)
        self.scn = len(self.ob.scenarios) - 1
        self.scn_exprs = dict(templ.exprs)
        self.ob.strings = {str(k): v for k, v in templ.I.strings_rev.items()}

    def require(self, st, prop, claim, key='', model_vars=None, assume=()):
        self._emit(st, 'require', [(prop, claim, key)], list(assume), model_vars)

    def require_all(self, st, claims, model_vars=None, assume=()):
        """claims: [(prop, claim text, key)] decided together (one query, split only when not all hold)."""
        self._emit(st, 'require', list(claims), list(assume), model_vars)

    def infeasible(self, st, claim, key='', model_vars=None, assume=()):
        self._emit(st, 'infeasible', [(None, claim, key)], list(assume), model_vars)

    def witness(self, label, st, cond=True, model_vars=None, expect=None):
        """expect='ok'|'err': the witness model is also replayed on the real code, which must agree (encoder validation)"""
        conds = cond if isinstance(cond, (list, tuple)) else [cond]
        f = z3.And(*[c for c in conds if c is not True]) if any(c is not True for c in conds) else True
        if any(c is False for c in conds):
            return
        self._emit(st, 'witness', [(f, label, label)], [], model_vars, lemmas=False, expect=expect)

    def witness_found(self, label):
        self.ob.witnesses.append({'label': label})

    def expect_witness(self, label, *substrings):
        """vacuity guard: after solving, some witness whose label contains all substrings must be sat."""
        self.ob.expect.append((label, list(substrings)))

    def need_witness(self, label, ok):
        if not ok:
            self.ob.missing_witness.append(label)

    def violation(self, claim, key, model=None):
        self.ob.violations.append({'claim': claim, 'site': key, 'key': key, 'model': model or {}})

    def sample(self, s):
        if len(self.ob.samples) < 6:
            self.ob.samples.append(s)


def with_extra(scn, extra):
    if not extra:
        return scn
    import copy
    s2 = copy.deepcopy(scn)
    s2['storage']['$raw_storage']['items'] = s2['storage']['$raw_storage']['items'] + list(extra)
    return s2


def div_lemmas(st, relevant_vars):
    """valid consequences of the division lemmas that help the nonlinear solver:
    monotonicity of floor division for pairs of divisions with the same divisor."""
    out = []
    divs = [d for d in st.ghost.get('divs', ()) if (vars_of(d[2]) & relevant_vars)]
    for i in range(len(divs)):
        x1, y1, q1, r1 = divs[i]
        for j in range(i + 1, len(divs)):
            x2, y2, q2, r2 = divs[j]
            same = (y1 == y2) if (isinstance(y1, int) and isinstance(y2, int)) else \
                (not isinstance(y1, int) and not isinstance(y2, int) and y1.eq(y2))
            if same:
                out.append(z3.Implies(x1 <= x2, q1 <= q2))
                out.append(z3.Implies(x2 <= x1, q2 <= q1))
    return out


# ---------------------------------------------------------------------- phase 2: solving
def solve_query(args):
    qi, q, timeout_ms, seed = args
    t0 = time.time()
    res = {'qi': qi, 'claims': []}
    if 'const' in q:
        res['claims'] = [{'sel': None, 'claim': c, 'key': k, 'status': q['const'], 'model': {}} for c, k in q['claims']]
        res['t'] = 0.0
        return res
    try:
        s = z3.Solver()
        s.set('timeout', timeout_ms)
        s.set('random_seed', seed & 0x7fffffff)
        s.from_string(q['text'])
        sels = [z3.Bool(n) for n, _, _ in q['sels']]
        status_all = None
        if len(sels) > 1 and q['kind'] != 'witness':
            s.push()
            s.add(z3.Or(*sels))
            r = s.check()
            s.pop()
            if r == z3.unsat:
                status_all = 'unsat'
        for (n, claim, key), sv in zip(q['sels'], sels):
            if status_all == 'unsat':
                res['claims'].append({'claim': claim, 'key': key, 'status': 'unsat', 'model': {}})
                continue
            s.push()
            s.add(sv)
            r = s.check()
            m = {}
            if r == z3.sat:
                mod = s.model()
                byname = {d.name(): mod[d] for d in mod.decls()}
                for label, (k, v) in q['mv'].items():
                    if k == 'const':
                        m[label] = v
                    elif v in byname:
                        m[label] = str(byname[v])
                    elif label in q.get('base', {}):
                        m[label] = q['base'][label]
                if not q['mv']:
                    for nme, val in list(byname.items())[:60]:
                        if '!' not in nme:
                            m[nme] = str(val)
            s.pop()
            res['claims'].append({'claim': claim, 'key': key,
                                  'status': 'sat' if r == z3.sat else ('unsat' if r == z3.unsat else 'unknown'), 'model': m})
    except Exception as e:   # noqa
        res['error'] = '%r %s' % (e, traceback.format_exc()[-600:])
    res['t'] = time.time() - t0
    return res


def solve_portfolio(args):
    """one unresolved claim of one query: try several solver configurations on a fresh context each."""
    qi, q, ci, timeout_ms, seed = args
    name, claim, key = q['sels'][ci]
    t0 = time.time()
    configs = [('default/seed0', lambda: z3.Solver(), 0),
               ('solve-eqs', lambda: z3.Then('simplify', 'solve-eqs', 'smt').solver(), 0),
               ('default/seed7', lambda: z3.Solver(), 7),
               ('qfnia', lambda: z3.SolverFor('QF_NIA'), 0),
               ('default/seed13', lambda: z3.Solver(), 13)]
    status, model, used = 'unknown', {}, None
    for cname, mk, sd in configs:
        try:
            s = mk()
            s.set('timeout', timeout_ms)
            if sd:
                s.set('random_seed', sd)
            s.from_string(q['text'])
            s.push()                 # incremental mode: a different (often faster) arithmetic pipeline
            s.add(z3.Bool(name))
            r = s.check()
        except Exception:   # noqa
            continue
        if r == z3.unsat:
            status, used = 'unsat', cname
            break
        if r == z3.sat:
            status, used = 'sat', cname
            mod = s.model()
            byname = {d.name(): mod[d] for d in mod.decls()}
            for label, (k, v) in q['mv'].items():
                if k == 'const':
                    model[label] = v
                elif v in byname:
                    model[label] = str(byname[v])
                elif label in q.get('base', {}):
                    model[label] = q['base'][label]
            break
    return {'qi': qi, 'ci': ci, 'status': status, 'model': model, 'config': used, 't': time.time() - t0}


def cvc5_check(text, timeout_s=60):
    """re-decide a query text (all selectors true -> any claim refutable?) with cvc5. returns sat/unsat/unknown/error"""
    try:
        p = subprocess.run(['cvc5', '--lang', 'smt2', '--tlimit=%d' % (timeout_s * 1000)], input=text, text=True,
                           stdout=subprocess.PIPE, stderr=subprocess.PIPE, timeout=timeout_s + 10)
    except Exception as e:   # noqa
        return 'error'
    out = p.stdout.strip().split('\n')[0] if p.stdout.strip() else ''
    if '(error' in p.stdout or '(error' in p.stderr:
        return 'error'
    return out if out in ('sat', 'unsat', 'unknown') else 'unknown'


# ---------------------------------------------------------------------- running
_PARSED = None


def _worker(args):
    modname, obname, tier, seed = args
    global _PARSED
    t0 = time.time()
    ob = Ob(obname, tier, seed)
    try:
        import importlib
        mod = importlib.import_module('checks.' + modname)
        fn = dict(mod.OBLIGATIONS)[obname]
        ctx = Ctx(ob, _PARSED, tier, seed)
        rp = getattr(mod, 'REPLAY', {})
        ctx.has_builder = bool(rp.get('*') or rp.get(obname))
        fn(ctx)
        for I in ctx.interps:
            ctx.absorb(I)
        # strings interned during the run (after the scenario template was registered) are needed to render models
        for I in ctx.interps[-1:]:
            ob.strings.update({str(k): v for k, v in I.strings_rev.items()})
    except Gap as e:
        ob.gaps.append(str(e))
    except Exception as e:   # noqa
        ob.gaps.append('internal error: %r\n%s' % (e, traceback.format_exc()[-1500:]))
    ob.wall = time.time() - t0
    return ob.to_dict()


def run_check(prop_id, modname, tier, seed, jobs=None, only=None):
    global _PARSED
    t0 = time.time()
    sys.path.insert(0, VERIF)
    import importlib
    mod = importlib.import_module('checks.' + modname)
    crates = getattr(mod, 'CRATES', None)
    work = engine.prepare(crates)            # copies /repo, dumps MIR (fresh every run)
    _PARSED = engine.load_parsed(work, crates)
    obs = [n for n, _ in mod.OBLIGATIONS if (only is None or n in only)]
    if hasattr(mod, 'tier_filter'):
        obs = [n for n in obs if mod.tier_filter(n, tier)]
    njobs = jobs or 16
    tasks = [(modname, n, tier, seed) for n in obs]
    results = []
    ctxm = mp.get_context('fork')
    t1 = time.time()
    if njobs == 1 or len(tasks) == 1:
        for t in tasks:
            results.append(_worker(t))
    else:
        with ctxm.Pool(min(njobs, len(tasks))) as pool:
            for r in pool.imap_unordered(_worker, tasks):
                results.append(r)
    results.sort(key=lambda r: obs.index(r['name']))
    sym_s = time.time() - t1
    # ---- phase 2
    allq = []
    for ri, r in enumerate(results):
        for qi, q in enumerate(r['queries']):
            allq.append(((ri, qi), q))
    timeout = TIER_QUERY_MS[tier]
    # first pass with a short cap so easy queries finish quickly; hard ones are retried with the full cap
    answers = {}
    t2 = time.time()

    def run_pass(items, to_ms, sd):
        out = {}
        if not items:
            return out
        args = [(k, q, to_ms, sd) for k, q in items]
        if njobs == 1:
            for a in args:
                r = solve_query(a)
                out[r['qi']] = r
        else:
            with ctxm.Pool(njobs) as pool:
                for r in pool.imap_unordered(solve_query, args, chunksize=1):
                    out[r['qi']] = r
        return out

    first_ms = min(timeout, 8000)
    answers.update(run_pass(allq, first_ms, seed))

    def unresolved():
        out = []
        for k, q in allq:
            a = answers.get(k)
            if a is None or 'error' in a or any(c['status'] == 'unknown' for c in a['claims']):
                out.append((k, q))
        return out
    rest = unresolved()
    retried = 0
    if rest:
        # portfolio pass: every unresolved claim on its own, several configurations, fresh solver contexts
        tasks2 = []
        for k, q in rest:
            a = answers.get(k)
            if a is None or 'error' in a:
                answers[k] = {'qi': k, 'claims': [{'claim': c, 'key': kk, 'status': 'unknown', 'model': {}} for _, c, kk in q.get('sels', [])], 't': 0.0}
                a = answers[k]
            for ci, c in enumerate(a['claims']):
                if c['status'] == 'unknown' and 'text' in q:
                    tasks2.append((k, q, ci, max(timeout, 30000), seed))
        retried = len(tasks2)
        if tasks2:
            if njobs == 1:
                outs2 = [solve_portfolio(t) for t in tasks2]
            else:
                with ctxm.Pool(min(njobs, len(tasks2))) as pool:
                    outs2 = list(pool.imap_unordered(solve_portfolio, tasks2, chunksize=1))
            for o in outs2:
                c = answers[o['qi']]['claims'][o['ci']]
                c['status'] = o['status']
                c['model'] = o['model']
                c['config'] = o['config']
                answers[o['qi']]['t'] = answers[o['qi']].get('t', 0.0) + o['t']
    rest = unresolved()
    if rest and os.environ.get('SMIR_DUMP_UNKNOWN'):
        os.makedirs(os.environ['SMIR_DUMP_UNKNOWN'], exist_ok=True)
        for n_, (k, q) in enumerate(rest):
            with open(os.path.join(os.environ['SMIR_DUMP_UNKNOWN'], 'q%d.json' % n_), 'w') as f:
                json.dump(q, f)
    solve_s = time.time() - t2
    # ---- thorough: cross-check a sample of query texts with cvc5
    cross = {'checked': 0, 'agree': 0, 'cvc5_unknown': 0, 'disagree': 0}
    if tier == 'thorough':
        sample = [(k, q) for k, q in allq if 'text' in q and q['kind'] != 'witness'][::max(1, len(allq) // 40)][:40]
        for k, q in sample:
            a = answers.get(k)
            if a is None or 'error' in a:
                continue
            # all selectors asserted: is any claim refutable?
            text = q['text'].replace('(check-sat)', '(assert (or %s))\n(check-sat)' % ' '.join('|%s|' % n for n, _, _ in q['sels']))
            mine = 'sat' if any(c['status'] == 'sat' for c in a['claims']) else \
                ('unsat' if all(c['status'] == 'unsat' for c in a['claims']) else 'unknown')
            other = cvc5_check(text, 30)
            cross['checked'] += 1
            if other in ('unknown', 'error') or mine == 'unknown':
                cross['cvc5_unknown'] += 1
            elif other == mine:
                cross['agree'] += 1
            else:
                cross['disagree'] += 1
    # ---- phase 3
    for ri, r in enumerate(results):
        wit_sat = []
        for qi, q in enumerate(r['queries']):
            a = answers.get((ri, qi))
            if a is None or 'error' in a:
                r['gaps'].append('solver process failed on a query: %s' % (a or {}).get('error', 'no answer'))
                continue
            r['solver_s'] += a.get('t', 0.0)
            if q['kind'] != 'witness' and q.get('scn') is None and 'sels' in q:
                ns = r.setdefault('no_scenario_keys', [])
                for _, _, k_ in q['sels']:
                    if k_ not in ns:
                        ns.append(k_)
            cf = q.get('confirm')
            if cf and len(a['claims']) == len(cf['holds']):
                cr = r.setdefault('confirm_replays', [])
                seen = r.setdefault('confirm_keys', {})
                for c, h in zip(a['claims'], cf['holds']):
                    if c['status'] == 'unsat' and h and seen.get(c['key'], 0) < CONFIRM_PER_KEY and len(cr) < CONFIRM_PER_OB[tier]:
                        seen[c['key']] = seen.get(c['key'], 0) + 1
                        ent = {'claim': c['claim'], 'key': c['key'], 'site': c['key'], 'model': cf['model'], 'strings': r['strings']}
                        if q.get('scn') is not None:
                            ent['scenario_t'] = with_extra(r['scenarios'][q['scn']], q.get('scn_extra'))
                            ent['strings'] = r['scn_strings'][q['scn']]
                        cr.append(ent)
            for c in a['claims']:
                if c['status'] == 'sat':
                    r['sat'] += 1
                elif c['status'] == 'unsat':
                    r['unsat'] += 1
                else:
                    r['unknown'] += 1
                if q['kind'] == 'witness':
                    if c['status'] == 'sat':
                        wit_sat.append(c['claim'])
                        if q.get('expect') and q.get('scn') is not None and len(r.setdefault('witness_replays', [])) < 3:
                            r['witness_replays'].append({'label': c['claim'], 'expect': q['expect'], 'model': c['model'],
                                                         'scenario_t': with_extra(r['scenarios'][q['scn']], q.get('scn_extra')), 'strings': r['scn_strings'][q['scn']]})
                        if len(r['witnesses']) < 12:
                            r['witnesses'].append({'label': c['claim'], 'model': c['model']})
                    continue
                if c['status'] == 'sat':
                    viol = {'claim': c['claim'], 'site': c['key'], 'key': c['key'], 'model': c['model']}
                    if q.get('scn') is not None:
                        viol['scenario_t'] = with_extra(r['scenarios'][q['scn']], q.get('scn_extra'))
                        viol['strings'] = r['scn_strings'][q['scn']]
                    r['violations'].append(viol)
                elif c['status'] == 'unknown':
                    r['unknowns'].append({'claim': c['claim'], 'site': c['key']})
        labels = wit_sat + [w['label'] for w in r['witnesses']]
        for label, subs in r['expect']:
            if not any(all(s in l for s in subs) for l in labels):
                r['missing_witness'].append(label)
        r['nqueries'] = len(r['queries'])
        del r['queries']
    info = {'symbolic_s': round(sym_s, 1), 'solve_s': round(solve_s, 1), 'queries': len(allq), 'portfolio_retries': retried, 'cross_check': cross}
    return results, time.time() - t0, work, info
