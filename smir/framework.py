# Check framework: obligations, solver verdicts, parallel execution, evidence, exit codes.
import os
import sys
import json
import time
import traceback
import multiprocessing as mp
import z3

from .values import *   # noqa
from .interp import Interp, State
from . import engine

VERIF = os.path.dirname(os.path.dirname(os.path.abspath(__file__)))

TIER_QUERY_MS = {'quick': 30000, 'thorough': 600000}


class Verdict:
    HOLDS = 'holds'
    VIOLATED = 'violated'
    UNKNOWN = 'unknown'
    GAP = 'gap'


class Ob:
    """result accumulator of one obligation."""

    def __init__(self, name, tier, seed):
        self.name = name
        self.tier = tier
        self.seed = seed
        self.sat = 0
        self.unsat = 0
        self.unknown = 0
        self.solver_s = 0.0
        self.paths = 0
        self.blocks = 0
        self.feas_queries = 0
        self.forks = 0
        self.functions = set()
        self.summaries = set()
        self.witnesses = []      # reachability witnesses (label, model excerpt)
        self.missing_witness = []
        self.violations = []     # dicts: {claim, model, site}
        self.unknowns = []
        self.gaps = []
        self.notes = []
        self.samples = []
        self.wall = 0.0
        self.bounds = {}

    def to_dict(self):
        d = dict(self.__dict__)
        d['functions'] = sorted(self.functions)
        d['summaries'] = sorted(self.summaries)
        return d


class Ctx:
    def __init__(self, ob, parsed, tier, seed):
        self.ob = ob
        self.parsed = parsed
        self.tier = tier
        self.seed = seed
        self.query_ms = TIER_QUERY_MS[tier]
        self.interps = []

    def interp(self, feas_timeout_ms=1500):
        I = engine.interp_from_parsed(self.parsed, feas_timeout_ms)
        I.solver.set('random_seed', self.seed & 0x7fffffff)
        self.interps.append(I)
        return I

    def absorb(self, I):
        s = I.stats
        self.ob.blocks += s.blocks
        self.ob.feas_queries += s.feas_queries
        self.ob.forks += s.forks
        self.ob.solver_s += s.solver_s
        self.ob.functions |= s.fns
        self.ob.summaries |= s.summaries
        I.stats = type(s)()

    # ------------------------------------------------------------------ solver
    def solve(self, st, extra, timeout_ms=None):
        """check pc /\\ extra.  returns ('sat', model) | ('unsat', None) | ('unknown', None)"""
        s = z3.Solver()
        s.set('timeout', timeout_ms or self.query_ms)
        s.set('random_seed', self.seed & 0x7fffffff)
        for c in st.pc:
            s.add(c)
        if isinstance(extra, (list, tuple)):
            for e in extra:
                if e is False:
                    return 'unsat', None
                if e is not True:
                    s.add(e)
        elif extra is False:
            return 'unsat', None
        elif extra is not True:
            s.add(extra)
        t0 = time.time()
        r = s.check()
        self.ob.solver_s += time.time() - t0
        if r == z3.sat:
            self.ob.sat += 1
            return 'sat', s.model()
        if r == z3.unsat:
            self.ob.unsat += 1
            return 'unsat', None
        self.ob.unknown += 1
        return 'unknown', None

    def require(self, st, prop, claim, site='', model_vars=None, assume=()):
        """obligation: on this path `prop` must hold (pc /\\ assume /\\ not prop unsat)."""
        if prop is True:
            self.ob.unsat += 0
            return True
        neg = z3.Not(prop) if prop is not False else True
        r, m = self.solve(st, list(assume) + [neg])
        if r == 'unsat':
            return True
        if r == 'sat':
            self.ob.violations.append({'claim': claim, 'site': site, 'model': model_excerpt(m, model_vars)})
            return False
        self.ob.unknowns.append({'claim': claim, 'site': site})
        return None

    def infeasible(self, st, claim, site='', model_vars=None, assume=()):
        """obligation: this path must not be reachable (under assume)."""
        r, m = self.solve(st, list(assume))
        if r == 'unsat':
            return True
        if r == 'sat':
            self.ob.violations.append({'claim': claim, 'site': site, 'model': model_excerpt(m, model_vars)})
            return False
        self.ob.unknowns.append({'claim': claim, 'site': site})
        return None

    def witness(self, label, st=None, cond=True, model_vars=None, found=None):
        """vacuity guard: the region `cond` must be reachable on some path."""
        if found is not None:
            if found:
                self.ob.witnesses.append({'label': label})
            else:
                self.ob.missing_witness.append(label)
            return found
        r, m = self.solve(st, cond, timeout_ms=min(self.query_ms, 20000))
        if r == 'sat':
            self.ob.witnesses.append({'label': label, 'model': model_excerpt(m, model_vars)})
            return True
        return False

    def need_witness(self, label, ok):
        if not ok:
            self.ob.missing_witness.append(label)

    def sample(self, s):
        if len(self.ob.samples) < 6:
            self.ob.samples.append(s)


def model_excerpt(m, model_vars=None, limit=60):
    if m is None:
        return {}
    out = {}
    if model_vars:
        for name, v in model_vars.items():
            try:
                if isinstance(v, (int, bool)):
                    out[name] = v
                else:
                    out[name] = str(m.eval(v, model_completion=True))
            except Exception:   # noqa
                pass
        return out
    for d in m.decls()[:limit]:
        n = d.name()
        if '!' in n and not n.startswith(('k!',)):
            # fresh internal variable: keep only a few
            if len(out) > limit:
                continue
        out[n] = str(m[d])
    return out


# ---------------------------------------------------------------------- running
_PARSED = None


def _worker(args):
    modname, obname, tier, seed = args
    global _PARSED
    t0 = time.time()
    ob = Ob(obname, tier, seed)
    try:
        import importlib
        mod = importlib.import_module('checks.' + modname)
        fn = dict(mod.OBLIGATIONS)[obname]
        ctx = Ctx(ob, _PARSED, tier, seed)
        fn(ctx)
        for I in ctx.interps:
            ctx.absorb(I)
    except Gap as e:
        ob.gaps.append(str(e))
    except Exception as e:   # noqa
        ob.gaps.append('internal error: %r\n%s' % (e, traceback.format_exc()[-1500:]))
    ob.wall = time.time() - t0
    return ob.to_dict()


def run_check(prop_id, modname, tier, seed, jobs=None, only=None):
    """returns (exit_code, evidence dict)"""
    global _PARSED
    t0 = time.time()
    sys.path.insert(0, VERIF)
    import importlib
    mod = importlib.import_module('checks.' + modname)
    crates = getattr(mod, 'CRATES', None)
    work = engine.prepare(crates)            # copies /repo, dumps MIR (fresh every run)
    _PARSED = engine.load_parsed(work, crates)
    obs = [n for n, _ in mod.OBLIGATIONS if (only is None or n in only)]
    if hasattr(mod, 'tier_filter'):
        obs = [n for n in obs if mod.tier_filter(n, tier)]
    jobs = jobs or min(16, max(1, len(obs)))
    tasks = [(modname, n, tier, seed) for n in obs]
    results = []
    if jobs == 1 or len(tasks) == 1:
        for t in tasks:
            results.append(_worker(t))
    else:
        ctxm = mp.get_context('fork')
        with ctxm.Pool(jobs) as pool:
            for r in pool.imap_unordered(_worker, tasks):
                results.append(r)
    results.sort(key=lambda r: obs.index(r['name']))
    return results, time.time() - t0, work
