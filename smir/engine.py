# Loading of MIR dumps + type tables into an Interp instance.
import os
from .interp import Interp
from . import typedefs

CRATES = {
    # crate name (as it appears in paths)      mir file          source dir (relative to repo) / cargo package
    'basset_sei_hub': ('hub', 'contracts/basset_sei_hub'),
    'basset_sei_reward': ('reward', 'contracts/basset_sei_reward'),
    'basset_sei_rewards_dispatcher': ('dispatcher', 'contracts/basset_sei_rewards_dispatcher'),
    'basset_sei_validators_registry': ('registry', 'contracts/basset_sei_validators_registry'),
    'basset_sei_token_bsei': ('token_bsei', 'contracts/basset_sei_token_bsei'),
    'basset_sei_token_stsei': ('token_stsei', 'contracts/basset_sei_token_stsei'),
    'basset': ('basset', 'packages/basset'),
    'cosmwasm_bignumber': ('bignumber', 'packages/bignumber'),
    'cw20_legacy': ('cw20_legacy', 'packages/cw20-legacy'),
    'signed_integer': ('signed_integer', 'packages/signed_integers'),
    'cw20_base': ('cw20_base', None),
}


def registry_src(prefix):
    import glob
    hits = sorted(glob.glob(os.path.expanduser('~/.cargo/registry/src/*/%s' % prefix)))
    if not hits:
        raise RuntimeError('registry source not found: ' + prefix)
    return hits[-1]


def make_interp(mirdir, srcdir, crates=None, feas_timeout_ms=1500):
    I = Interp(feas_timeout_ms)
    extra = [
        ('cosmwasm_std', os.path.join(registry_src('cosmwasm-std-1.5.11'), 'src')),
        ('cw20', os.path.join(registry_src('cw20-0.16.0'), 'src')),
        ('cw_utils', os.path.join(registry_src('cw-utils-0.16.0'), 'src')),
        ('cw20_base', os.path.join(registry_src('cw20-base-0.16.0'), 'src')),
    ]
    I.types = typedefs.build_table(srcdir, extra)
    for crate in (crates or CRATES):
        mir = os.path.join(mirdir, CRATES[crate][0] + '.mir')
        if os.path.exists(mir):
            I.load_crate(crate, mir)
    return I
