# Loading of MIR dumps + type tables into an Interp instance.
import os
from .interp import Interp
from . import typedefs

CRATES = {
    # crate name (as it appears in paths)      mir file          source dir (relative to repo) / cargo package
    'basset_sei_hub': ('hub', 'contracts/basset_sei_hub'),
    'basset_sei_reward': ('reward', 'contracts/basset_sei_reward'),
    'basset_sei_rewards_dispatcher': ('dispatcher', 'contracts/basset_sei_rewards_dispatcher'),
    'basset_sei_validators_registry': ('registry', 'contracts/basset_sei_validators_registry'),
    'basset_sei_token_bsei': ('token_bsei', 'contracts/basset_sei_token_bsei'),
    'basset_sei_token_stsei': ('token_stsei', 'contracts/basset_sei_token_stsei'),
    'basset': ('basset', 'packages/basset'),
    'cosmwasm_bignumber': ('bignumber', 'packages/bignumber'),
    'cw20_legacy': ('cw20_legacy', 'packages/cw20-legacy'),
    'signed_integer': ('signed_integer', 'packages/signed_integers'),
    'cw20_base': ('cw20_base', None),
}


def registry_src(prefix):
    import glob
    hits = sorted(glob.glob(os.path.expanduser('~/.cargo/registry/src/*/%s' % prefix)))
    if not hits:
        raise RuntimeError('registry source not found: ' + prefix)
    return hits[-1]


def make_interp(mirdir, srcdir, crates=None, feas_timeout_ms=1500):
    I = Interp(feas_timeout_ms)
    extra = [
        ('cosmwasm_std', os.path.join(registry_src('cosmwasm-std-1.5.11'), 'src')),
        ('cw20', os.path.join(registry_src('cw20-0.16.0'), 'src')),
        ('cw_utils', os.path.join(registry_src('cw-utils-0.16.0'), 'src')),
        ('cw20_base', os.path.join(registry_src('cw20-base-0.16.0'), 'src')),
    ]
    I.types = typedefs.build_table(srcdir, extra)
    for crate in (crates or CRATES):
        mir = os.path.join(mirdir, CRATES[crate][0] + '.mir')
        if os.path.exists(mir):
            I.load_crate(crate, mir)
    return I


# ---------------------------------------------------------------------- fresh MIR from /repo
import fcntl
import shutil
import subprocess
import time
import hashlib

VERIF = os.path.dirname(os.path.dirname(os.path.abspath(__file__)))
REPO = os.environ.get('VERIF_REPO', '/repo')
CACHE = os.path.join(VERIF, '.cache')
WORK = os.path.join(VERIF, '.work')

# crates each contract's handlers can reach (callee bodies needed by the interpreter)
DEPS = {
    'basset_sei_hub': ['basset_sei_hub', 'basset_sei_validators_registry', 'basset', 'cosmwasm_bignumber', 'signed_integer'],
    'basset_sei_reward': ['basset_sei_reward', 'basset', 'cosmwasm_bignumber'],
    'basset_sei_rewards_dispatcher': ['basset_sei_rewards_dispatcher', 'basset'],
    'basset_sei_validators_registry': ['basset_sei_validators_registry', 'basset'],
    'basset_sei_token_bsei': ['basset_sei_token_bsei', 'cw20_legacy', 'basset'],
    'basset_sei_token_stsei': ['basset_sei_token_stsei', 'cw20_base', 'basset'],
}


class BuildError(Exception):
    pass


def expand(crates):
    out = []
    for c in crates or CRATES:
        for d in DEPS.get(c, [c]):
            if d not in out:
                out.append(d)
    return out


def prepare(crates=None, keep=False):
    """copy /repo's working tree and dump the MIR of the needed crates. returns a dict describing the work dir."""
    os.makedirs(CACHE, exist_ok=True)
    os.makedirs(WORK, exist_ok=True)
    run = os.path.join(WORK, 'run-%d-%d' % (os.getpid(), int(time.time() * 1000) % 100000000))
    src = os.path.join(run, 'src')
    mir = os.path.join(run, 'mir')
    os.makedirs(mir)
    t0 = time.time()
    subprocess.check_call(['rsync', '-a', '--delete', '--exclude', 'target', '--exclude', '.git', '--exclude',
                           'artifacts', '--exclude', '.verif-replay', REPO + '/', src + '/'])
    env = dict(os.environ)
    # a copy of the repository (VERIF_REPO) gets its own build cache: artifact names do not depend on source paths
    mir_target = os.path.join(CACHE, 'mir-target') if os.path.abspath(REPO) == '/repo' else os.path.join(os.path.abspath(REPO), '.verif-replay', 'target-mir')
    os.makedirs(mir_target, exist_ok=True)
    env['CARGO_TARGET_DIR'] = mir_target
    env['CARGO_NET_OFFLINE'] = 'true'
    env.pop('RUSTFLAGS', None)
    env.pop('RUSTUP_TOOLCHAIN', None)
    need = expand(crates)
    times = {}
    lock = open(os.path.join(CACHE, 'cargo.lock') if os.path.abspath(REPO) == '/repo' else os.path.join(mir_target, 'verif.lock'), 'w')
    fcntl.flock(lock, fcntl.LOCK_EX)
    try:
        for c in need:
            name, rel = CRATES[c]
            out = os.path.join(mir, name + '.mir')
            t1 = time.time()
            if rel is None:
                cwd = os.path.join(src, 'contracts/basset_sei_token_stsei')
                cmd = ['cargo', '+nightly', 'rustc', '--offline', '-p', 'cw20-base@0.16.0', '--lib', '--',
                       '-Zunpretty=mir', '-C', 'debug-assertions=off', '-C', 'overflow-checks=on']
            else:
                cwd = os.path.join(src, rel)
                os.utime(os.path.join(cwd, 'src/lib.rs'))
                cmd = ['cargo', '+nightly', 'rustc', '--offline', '--lib']
                if rel.startswith('contracts/'):
                    cmd += ['--features', 'library']
                cmd += ['--', '-Zunpretty=mir', '-C', 'debug-assertions=off', '-C', 'overflow-checks=on']
            with open(out, 'w') as fo:
                p = subprocess.run(cmd, cwd=cwd, env=env, stdout=fo, stderr=subprocess.PIPE, text=True)
            if p.returncode != 0 or os.path.getsize(out) == 0:
                raise BuildError('MIR dump of %s failed (rc=%d):\n%s' % (c, p.returncode, p.stderr[-3000:]))
            times[c] = round(time.time() - t1, 1)
    finally:
        fcntl.flock(lock, fcntl.LOCK_UN)
        lock.close()
    return {'run': run, 'src': src, 'mir': mir, 'crates': need, 'dump_s': round(time.time() - t0, 1), 'times': times}


def cleanup(work):
    shutil.rmtree(work['run'], ignore_errors=True)


def load_parsed(work, crates=None):
    """parse MIR + type tables once; Interp instances are then cheap to create."""
    I = make_interp(work['mir'], work['src'], expand(crates))
    return I


def interp_from_parsed(P, feas_timeout_ms=1500):
    I = Interp(feas_timeout_ms)
    I.crates = P.crates
    I.bylast = P.bylast
    I.allocs = P.allocs
    I.types = P.types
    I.closure_index = P.closure_index
    return I
