# Summaries: semantics of calls that leave the repository (core/alloc/std, cosmwasm-std,
# cw-storage-plus, cosmwasm-storage, bigint, cw2) plus a few repository functions that are
# overridden because they go through representations SMIR does not model (U256 limbs, decimal strings).
import re
import z3

from .values import *   # noqa
from .interp import getpath, setpath, strip_generics, base_name
from . import typedefs
from .mirparse import skip_balanced, split_top


def norm(callee):
    c = strip_generics(callee)
    c = re.sub(r"<'\w+>", '', c)
    c = re.sub(r"'\w+,? ?", '', c)
    return c


class Summaries:
    def __init__(self, I):
        self.I = I
        self.cache = {}
        self.table = []
        self.contract_table = []
        self.build()

    def named_const(self, st, fn, name):
        n = strip_generics(name)
        if n.endswith('u128::MAX') or n == 'core::num::<impl u128>::MAX':
            return U128_MAX
        if n.endswith('u64::MAX') or n == 'core::num::<impl u64>::MAX':
            return U64_MAX
        m = re.search(r'(?:^|::|<impl )([ui])(8|16|32|64|128|size)>?::(MAX|MIN)$', name.strip())
        if m:
            bits = 64 if m.group(2) == 'size' else int(m.group(2))
            if m.group(1) == 'u':
                return (2 ** bits - 1) if m.group(3) == 'MAX' else 0
            return (2 ** (bits - 1) - 1) if m.group(3) == 'MAX' else -(2 ** (bits - 1))
        if n.endswith('Uint128::MAX'):
            return U128(U128_MAX)
        if n.endswith('Decimal::MAX'):
            return DEC(U128_MAX)
        if re.search(r'Decimal256::DECIMAL_FRACTIONAL$', n):
            return Agg('U256', (E18,))
        if re.search(r'Decimal256::MAX$', n):
            return Agg('Decimal256', (Agg('U256', (2 ** 256 - 1,)),))
        if re.search(r'U256::MAX$', n):
            return Agg('U256', (2 ** 256 - 1,))
        return None

    def add(self, name, pattern, handler):
        self.table.append((name, re.compile(pattern), handler))

    def add_contract(self, name, pattern, handler):
        """function contract: a merged (fork-free) closed form of a *repository* function.  Only used when the
        harness enables it (I.contracts_on), and every run proves it equivalent to the MIR of that function."""
        self.contract_table.append((name, re.compile(pattern), handler))

    def lookup_contract(self, name):
        for n, rx, handler in self.contract_table:
            if n == name:
                return handler
        raise Gap('no contract ' + name)

    def lookup(self, callee):
        on = getattr(self.I, 'contracts_on', None)
        if on:
            key = ('c', callee)
            h = self.cache.get(key)
            if h is None:
                c = norm(callee)
                h = False
                for name, rx, handler in self.contract_table:
                    if rx.search(c):
                        h = (name, handler)
                        break
                self.cache[key] = h
            if h and h[0] in on:
                return ('contract:' + h[0], h[1])
        h = self.cache.get(callee)
        if h is not None:
            return h if h else None
        c = norm(callee)
        for name, rx, handler in self.table:
            if rx.search(c):
                self.cache[callee] = (name, handler)
                return (name, handler)
        self.cache[callee] = False
        return None

    # ------------------------------------------------------------------ helpers
    def num(self, st, v):
        """the integer inside Uint128 / Decimal / Uint256 / Decimal256 / U256 / Uint64 / plain ints."""
        v = self.I.val(st, v)
        while isinstance(v, Agg) and len(v.fields) == 1 and v.ty in ('Uint128', 'Decimal', 'Uint256', 'Decimal256',
                                                                     'U256', 'Uint64', 'Timestamp'):
            v = v.fields[0]
        if isinstance(v, bool):
            return int(v)
        if isinstance(v, int) or is_sym(v):
            return v
        raise Gap('not a number: %r' % (v,))

    def conc(self, st, v):
        """generator: concretise SymEnum values (fork)."""
        v0 = v
        v = self.I.val(st, v)
        if isinstance(v, SymEnum):
            outs = [(i, a) for i, a in enumerate(v.alts) if self.I.feasible(st, v.tag == i)]
            for n, (i, a) in enumerate(outs):
                st2 = st if n == len(outs) - 1 else st.clone()
                st2.add(v.tag == i)
                if isinstance(v0, Ref):
                    self.I.store(st2, v0, a)
                yield st2, a
            return
        yield st, v

    def seq_eq(self, st, a, b):
        a = self.I.val(st, a)
        b = self.I.val(st, b)
        return self.struct_eq(st, a, b)

    def struct_eq(self, st, a, b):
        I = self.I
        a = I.val(st, a)
        b = I.val(st, b)
        if isinstance(a, SymEnum) or isinstance(b, SymEnum):
            if isinstance(a, SymEnum):
                terms = [z3_and(a.tag == i, self.struct_eq(st, alt, b)) for i, alt in enumerate(a.alts)]
            else:
                terms = [z3_and(b.tag == i, self.struct_eq(st, a, alt)) for i, alt in enumerate(b.alts)]
            return z3_or(*terms)
        if isinstance(a, StrV) and isinstance(b, StrV):
            return eqv(a.id, b.id)
        if isinstance(a, StrV) and isinstance(b, Agg) and b.ty == 'Addr':
            return eqv(a.id, b.fields[0].id)
        if isinstance(b, StrV) and isinstance(a, Agg) and a.ty == 'Addr':
            return eqv(b.id, a.fields[0].id)
        if isinstance(a, (int, bool)) or is_sym(a):
            if isinstance(b, (int, bool)) or is_sym(b):
                return eqv(a, b)
            return False
        if isinstance(a, BytesV) and isinstance(b, BytesV):
            return a.b == b.b
        if isinstance(a, JsonV) and isinstance(b, JsonV):
            return self.struct_eq(st, a.v, b.v)
        if isinstance(a, KeyV) and isinstance(b, KeyV):
            if len(a.parts) != len(b.parts):
                return False
            return z3_and(*[self.struct_eq(st, x, y) for x, y in zip(a.parts, b.parts)])
        if isinstance(a, VecV) and isinstance(b, VecV):
            if len(a.items) != len(b.items):
                return False
            return z3_and(*[self.struct_eq(st, x, y) for x, y in zip(a.items, b.items)])
        if isinstance(a, Agg) and isinstance(b, Agg):
            if a.variant != b.variant:
                return False
            if len(a.fields) != len(b.fields):
                return False
            return z3_and(*[self.struct_eq(st, x, y) for x, y in zip(a.fields, b.fields)])
        if a is b:
            return True
        raise Gap('structural equality of %r and %r' % (a, b))

    def default_of(self, st, ty, crate=None):
        ty = ty.strip()
        b = base_name(ty)
        if ty in INT_RANGE:
            return 0
        if ty == 'bool':
            return False
        if b in ('String', 'str'):
            return self.I.S('')
        if b == 'Uint128':
            return U128(0)
        if b == 'Decimal':
            return DEC(0)
        if b == 'Vec':
            return VecV(())
        if b == 'Option':
            return NONE
        if b == 'Expiration':
            return Agg('Expiration', (), 2, 'Never')
        if b == 'U256':
            return Agg('U256', (0,))
        if b in ('Uint256',):
            return Agg('Uint256', (Agg('U256', (0,)),))
        if b in ('Decimal256',):
            return Agg('Decimal256', (Agg('U256', (0,)),))
        td = self.I.types.lookup(ty, crate)
        if td is not None and td.kind == 'struct':
            return Agg(td.name, [self.default_of(st, f[1], td.crate) for f in td.fields])
        raise Gap('default value of type ' + ty)

    def callee_types(self, callee):
        """generic args of the last turbofish group / of the leading type of the callee."""
        return callee

    # ------------------------------------------------------------------ table
    def build(self):
        A = self.add
        I = self.I
        one = lambda f: (lambda st, fn, callee, args, dty: iter([(st, f(st, *args))]))   # noqa

        def simple(f):
            def h(st, fn, callee, args, dty):
                yield st, f(st, *args)
            return h

        def ident(st, fn, callee, args, dty):
            yield st, args[0]

        def valident(st, fn, callee, args, dty):
            yield st, I.val(st, args[0])

        # ---------------- panics
        def h_panic(st, fn, callee, args, dty):
            yield st, Panic(norm(callee))
        A('panic', r'core::panicking::|std::rt::begin_panic|::unwrap_failed|::expect_failed|panic_fmt|'
                   r'core::result::unwrap_failed|core::option::unwrap_failed|slice_index_order_fail|'
                   r'core::slice::index::', h_panic)

        # ---------------- Try / FromResidual
        def h_branch(st, fn, callee, args, dty):
            for st2, v in self.conc(st, args[0]):
                if v.ty == 'Result':
                    if v.variant == 0:
                        yield st2, Agg('ControlFlow', (v.fields[0],), 0, 'Continue')
                    else:
                        yield st2, Agg('ControlFlow', (err(v.fields[0]),), 1, 'Break')
                elif v.ty == 'Option':
                    if v.variant == 1:
                        yield st2, Agg('ControlFlow', (v.fields[0],), 0, 'Continue')
                    else:
                        yield st2, Agg('ControlFlow', (NONE,), 1, 'Break')
                else:
                    raise Gap('Try::branch on %r' % (v,))
        A('Try::branch', r' as Try>::branch$', h_branch)

        def h_from_residual(st, fn, callee, args, dty):
            v = I.val(st, args[0])
            if isinstance(v, Agg) and v.ty == 'Result':
                yield st, err(v.fields[0])
            elif isinstance(v, Agg) and v.ty == 'Option':
                if 'Result<' in callee.split(' as ')[0]:
                    raise Gap('from_residual Option->Result')
                yield st, NONE
            else:
                raise Gap('from_residual on %r' % (v,))
        A('FromResidual', r' as FromResidual<.*>>::from_residual$', h_from_residual)

        # ---------------- Option / Result combinators
        def opt(st, v):
            return self.conc(st, v)

        def h_ok_or_else(st, fn, callee, args, dty):
            for st2, v in opt(st, args[0]):
                if v.variant == 1:
                    yield st2, ok(v.fields[0])
                else:
                    for st3, e in I.call_callable(st2, args[1], []):
                        yield st3, (e if isinstance(e, Panic) else err(e))
        A('Option::ok_or_else', r'Option::ok_or_else$', h_ok_or_else)

        def h_ok_or(st, fn, callee, args, dty):
            for st2, v in opt(st, args[0]):
                yield st2, ok(v.fields[0]) if v.variant == 1 else err(args[1])
        A('Option::ok_or', r'Option::ok_or$', h_ok_or)

        def h_opt_map(st, fn, callee, args, dty):
            for st2, v in opt(st, args[0]):
                if v.variant == 1:
                    for st3, r in I.call_callable(st2, args[1], [v.fields[0]]):
                        yield st3, (r if isinstance(r, Panic) else some(r))
                else:
                    yield st2, NONE
        A('Option::map', r'Option::map$', h_opt_map)

        def h_opt_map_or(st, fn, callee, args, dty):
            # Option::map_or(default, f) / map_or_else(default_fn, f) / is_some_and(f) / is_none_or(f)
            k = norm(callee).rsplit('::', 1)[-1]
            for st2, v in opt(st, args[0]):
                if k in ('is_some_and', 'is_none_or'):
                    if v.variant == 1:
                        yield from I.call_callable(st2, args[1], [v.fields[0]])
                    else:
                        yield st2, (k == 'is_none_or')
                elif v.variant == 1:
                    yield from I.call_callable(st2, args[2], [v.fields[0]])
                elif k == 'map_or':
                    yield st2, args[1]
                else:
                    yield from I.call_callable(st2, args[1], [])
        A('Option::map_or', r'Option::(map_or|map_or_else|is_some_and|is_none_or)$', h_opt_map_or)

        def h_opt_and_then(st, fn, callee, args, dty):
            for st2, v in opt(st, args[0]):
                if v.variant == 1:
                    yield from I.call_callable(st2, args[1], [v.fields[0]])
                else:
                    yield st2, NONE
        A('Option::and_then', r'Option::and_then$', h_opt_and_then)

        def h_res_map(st, fn, callee, args, dty):
            for st2, v in opt(st, args[0]):
                if v.variant == 0:
                    for st3, r in I.call_callable(st2, args[1], [v.fields[0]]):
                        yield st3, (r if isinstance(r, Panic) else ok(r))
                else:
                    yield st2, v
        A('Result::map', r'Result::map$', h_res_map)

        def h_res_map_err(st, fn, callee, args, dty):
            for st2, v in opt(st, args[0]):
                if v.variant == 1:
                    for st3, r in I.call_callable(st2, args[1], [v.fields[0]]):
                        yield st3, (r if isinstance(r, Panic) else err(r))
                else:
                    yield st2, v
        A('Result::map_err', r'Result::map_err$', h_res_map_err)

        def h_unwrap(st, fn, callee, args, dty):
            for st2, v in opt(st, args[0]):
                good = (v.ty == 'Option' and v.variant == 1) or (v.ty == 'Result' and v.variant == 0)
                if good:
                    yield st2, v.fields[0]
                else:
                    yield st2, Panic('unwrap on None/Err')
        A('unwrap', r'(Option|Result)::(unwrap|expect)$', h_unwrap)

        def h_unwrap_or(st, fn, callee, args, dty):
            v = I.val(st, args[0])
            if isinstance(v, SymEnum) and len(v.alts) == 2 and scalar(v.alts[1].fields[0] if v.alts[1].fields else None) \
                    and scalar(args[1]):
                # merge instead of fork
                yield st, ite(v.tag == 1, v.alts[1].fields[0], args[1])
                return
            for st2, v in opt(st, args[0]):
                good = (v.ty == 'Option' and v.variant == 1) or (v.ty == 'Result' and v.variant == 0)
                yield st2, v.fields[0] if good else args[1]
        A('unwrap_or', r'(Option|Result)::unwrap_or$', h_unwrap_or)

        def h_unwrap_or_default(st, fn, callee, args, dty):
            for st2, v in opt(st, args[0]):
                good = (v.ty == 'Option' and v.variant == 1) or (v.ty == 'Result' and v.variant == 0)
                if good:
                    yield st2, v.fields[0]
                else:
                    m = re.search(r'(?:Option|Result)::<(.*)>::unwrap_or_default', callee)
                    t = split_top(m.group(1))[0] if m else dty
                    yield st2, self.default_of(st2, t, fn.crate)
        A('unwrap_or_default', r'(Option|Result)::unwrap_or_default$', h_unwrap_or_default)

        def h_unwrap_or_else(st, fn, callee, args, dty):
            for st2, v in opt(st, args[0]):
                good = (v.ty == 'Option' and v.variant == 1) or (v.ty == 'Result' and v.variant == 0)
                if good:
                    yield st2, v.fields[0]
                else:
                    yield from I.call_callable(st2, args[1], [] if v.ty == 'Option' else [v.fields[0]])
        A('unwrap_or_else', r'(Option|Result)::unwrap_or_else$', h_unwrap_or_else)

        def h_is(st, fn, callee, args, dty):
            v = I.val(st, args[0])
            want = {'is_some': ('Option', 1), 'is_none': ('Option', 0), 'is_ok': ('Result', 0), 'is_err': ('Result', 1)}
            k = norm(callee).split('::')[-1]
            if isinstance(v, SymEnum):
                yield st, v.tag == want[k][1]
            else:
                yield st, v.variant == want[k][1]
        A('is_some/none/ok/err', r'(Option|Result)::(is_some|is_none|is_ok|is_err)$', h_is)

        def h_as_ref(st, fn, callee, args, dty):
            r = args[0]
            for st2, v in self.conc(st, r):
                if v.variant == 1:
                    if isinstance(r, Ref):
                        yield st2, some(Ref(r.cell, r.path + (('f', 0),)))
                    else:
                        yield st2, some(Ref(st2.new_cell(v.fields[0]), ()))
                else:
                    yield st2, NONE
        A('Option::as_ref', r'Option::(as_ref|as_mut|as_deref)$', h_as_ref)

        def h_transpose(st, fn, callee, args, dty):
            for st2, v in opt(st, args[0]):
                if v.variant == 0:
                    yield st2, ok(NONE)
                else:
                    for st3, r in self.conc(st2, v.fields[0]):
                        yield st3, ok(some(r.fields[0])) if r.variant == 0 else r
        A('Option::transpose', r'Option::transpose$', h_transpose)
        A('Option::from', r'<(std::option::)?Option<.*> as From<.*>>::from$', simple(lambda st, v: some(v)))

        # ---------------- clone / to_string / deref / conversions that are the identity on values
        A('clone', r' as Clone>::clone$| as ToOwned>::to_owned$|slice::to_vec$|::to_vec$', valident)
        A('str-ident', r'<(Addr|std::string::String|str|&str) as (ToString|Into<std::string::String>|AsRef<str>|Deref|'
                       r'Borrow<str>)>::(to_string|into|as_ref|deref|borrow)$|String::as_str$|Addr::as_str$|'
                       r'Addr::into_string$|Addr::to_string$|String::from$|<std::string::String as From<&str>>::from$|'
                       r'<T as Into<std::string::String>>::into$|<std::string::String as From<Addr>>::from$|'
                       r'<std::string::String as From<std::string::String>>::from$',
          lambda st, fn, callee, args, dty: iter([(st, self.to_str(st, args[0]))]))
        A('Addr::unchecked', r'Addr::unchecked$', simple(lambda st, v: Agg('Addr', (self.to_str(st, v),))))
        A('deref-ident', r'<std::vec::Vec<.*> as (Deref|DerefMut|AsRef<.*>|Borrow<.*>)>::(deref|deref_mut|as_ref|borrow)$|'
                         r'Vec::as_slice$|Vec::as_mut_slice$|<cosmwasm_std::Binary as Deref>::deref$|'
                         r'<Binary as Deref>::deref$|Binary::as_slice$|<Box<.*> as Deref(Mut)?>::deref(_mut)?$', ident)
        A('as_bytes', r'String::as_bytes$|str::as_bytes$|Addr::as_bytes$|String::into_bytes$|'
                      r'<std::string::String as Into<std::vec::Vec<u8>>>::into$|CanonicalAddr::as_slice$|'
                      r'<cosmwasm_std::Binary as Into<std::vec::Vec<u8>>>::into$|<CanonicalAddr as From<std::vec::Vec<u8>>>::from$|'
                      r'<CanonicalAddr as From<&\[u8\]>>::from$|<CanonicalAddr as Deref>::deref$',
          lambda st, fn, callee, args, dty: iter([(st, self.bytes_view(st, callee, args[0]))]))

        def h_to_string(st, fn, callee, args, dty):
            v = I.val(st, args[0])
            yield st, Agg('Shown', (v,))  # a string that remembers the shown value (only used in attributes)
        A('to_string', r'<(Decimal|Uint128|Coin|u32|u64|u8|usize|u128|U256|math::Decimal256|math::Uint256|'
                       r'cosmwasm_bignumber::Decimal256|cosmwasm_bignumber::Uint256|Timestamp|Uint64|bool|'
                       r'cosmwasm_std::StdError|StdError|ContractError|OverflowError) as ToString>::to_string$', h_to_string)

        # ---------------- fmt
        A('fmt-arg', r'core::fmt::rt::Argument::new_|Arguments::new|Arguments::from_str', simple(lambda st, *a: UNIT))
        A('format', r'^format$|alloc::fmt::format$|std::fmt::format$', simple(lambda st, *a: I.opaque_str()))
        A('must_use', r'^must_use$|core::hint::must_use$', ident)

        # ---------------- equality / ordering
        def h_eq(st, fn, callee, args, dty):
            r = self.struct_eq(st, args[0], args[1])
            if norm(callee).endswith('::ne'):
                r = (not r) if isinstance(r, bool) else z3.Not(r)
            yield st, r
        A('PartialEq', r' as PartialEq(<.*>)?>::(eq|ne)$', h_eq)

        def h_cmp(st, fn, callee, args, dty):
            k = norm(callee).split('::')[-1]
            x = self.num(st, args[0])
            y = self.num(st, args[1])
            if k in ('lt', 'le', 'gt', 'ge'):
                yield st, {'lt': lambda: x < y, 'le': lambda: x <= y, 'gt': lambda: x > y, 'ge': lambda: x >= y}[k]()
                return
            if k in ('min', 'max'):
                a0 = I.val(st, args[0])
                c = (x <= y) if k == 'min' else (x >= y)
                yield st, self.rewrap(a0, ite(c, x, y))
                return
            o = I.int_binop(st, 'Cmp', x, y, None)
            yield st, (some(o) if k == 'partial_cmp' else o)
        A('cmp', r'<(Uint128|Decimal|u8|u32|u64|u128|usize|bool|U256|Uint64|Timestamp|cosmwasm_bignumber::Uint256|'
                 r'cosmwasm_bignumber::Decimal256|math::Uint256|math::Decimal256) as (PartialOrd|Ord)>::'
                 r'(lt|le|gt|ge|cmp|partial_cmp|min|max)$|core::cmp::(min|max)$', h_cmp)
        A('Ordering::reverse', r'Ordering::reverse$',
          lambda st, fn, callee, args, dty: self.h_ord_reverse(st, args))

        # ---------------- Uint128 / Decimal arithmetic
        def arith_res(st, r, lo, hi, wrap, what):
            """r must stay in [lo,hi]; otherwise panic."""
            if not is_sym(r):
                if lo <= r <= hi:
                    yield st, wrap(r)
                else:
                    yield st, Panic(what)
                return
            bad = z3.Or(r < lo, r > hi)
            if I.feasible(st, bad):
                st2 = st.clone()
                st2.add(bad)
                yield st2, Panic(what)
            good = z3.And(r >= lo, r <= hi)
            if I.quick(good) is not True:
                st.add(good)
            yield st, wrap(r)

        def h_u128_binop(st, fn, callee, args, dty):
            k = norm(callee)
            x = self.num(st, args[0])
            y = self.num(st, args[1])
            if k.endswith('::add'):
                yield from arith_res(st, x + y, 0, U128_MAX, U128, 'Uint128 add overflow')
            elif k.endswith('::sub'):
                yield from arith_res(st, x - y, 0, U128_MAX, U128, 'Uint128 sub overflow')
            elif k.endswith('::mul'):
                yield from arith_res(st, x * y, 0, U128_MAX, U128, 'Uint128 mul overflow')
            else:
                raise Gap(k)
        A('Uint128 ops', r'<Uint128 as (?:std::ops::|core::ops::)?(Add|Sub|Mul)(<Uint128>|<&Uint128>)?>::(add|sub|mul)$', h_u128_binop)

        def h_u128_assign(st, fn, callee, args, dty):
            k = norm(callee)
            r = args[0]
            x = self.num(st, r)
            y = self.num(st, args[1])
            v = x + y if 'add_assign' in k else x - y
            for st2, res in arith_res(st, v, 0, U128_MAX, U128, 'Uint128 %s overflow' % k.split('::')[-1]):
                if not isinstance(res, Panic):
                    I.store(st2, r, res)
                    res = UNIT
                yield st2, res
        A('Uint128 assign', r'<Uint128 as (AddAssign|SubAssign)(<.*>)?>::(add_assign|sub_assign)$', h_u128_assign)

        def h_checked(st, fn, callee, args, dty):
            k = norm(callee).split('::')[-1]
            x = self.num(st, args[0])
            y = self.num(st, args[1])
            if k == 'checked_div':
                zero = eqv(y, 0)
                for st2, z in I.truth(st, zero):
                    if z:
                        yield st2, err(Agg('DivideByZeroError', ()))
                    else:
                        yield st2, ok(U128(I.idiv(st2, x, y)[0]))
                return
            r = {'checked_add': x + y, 'checked_sub': x - y, 'checked_mul': x * y}[k]
            bad = (r < 0) if k == 'checked_sub' else (r > U128_MAX)
            for st2, b in I.truth(st, bad):
                if b:
                    yield st2, err(Agg('OverflowError', ()))
                else:
                    yield st2, ok(U128(r))
        A('Uint128 checked', r'Uint128::checked_(add|sub|mul|div)$', h_checked)

        def h_int_checked(st, fn, callee, args, dty):
            k = norm(callee).split('::')[-1]
            m = re.search(r'impl (u8|u16|u32|u64|u128|usize)>', callee)
            ty = m.group(1) if m else 'u64'
            lo, hi = INT_RANGE[ty]
            x, y = args
            r = {'checked_add': x + y, 'checked_sub': x - y, 'checked_mul': x * y}[k]
            bad = z3_or(r < lo, r > hi) if is_sym(r) else (r < lo or r > hi)
            for st2, b in I.truth(st, bad):
                yield st2, NONE if b else some(r)
        A('int checked', r'core::num::<impl u\w+>::checked_(add|sub|mul)$|^core::num::checked_(add|sub|mul)$', h_int_checked)

        def h_multiply_ratio(st, fn, callee, args, dty):
            x = self.num(st, args[0])
            a = self.num(st, args[1])
            b = self.num(st, args[2])
            for st2, z in I.truth(st, eqv(b, 0)):
                if z:
                    yield st2, Panic('multiply_ratio: denominator must not be zero')
                else:
                    q, _ = I.idiv(st2, x * a, b)
                    yield from arith_res(st2, q, 0, U128_MAX, U128, 'multiply_ratio overflow')
        A('Uint128::multiply_ratio', r'Uint128::multiply_ratio$', h_multiply_ratio)

        def h_u128_mul_dec(st, fn, callee, args, dty):
            a = I.val(st, args[0])
            b = I.val(st, args[1])
            if a.ty == 'Decimal':
                a, b = b, a
            x = self.num(st, a)
            d = self.num(st, b)
            # cosmwasm: 0 * d and x * 0 short-circuit to zero; floor(x*d/1e18)
            q, _ = I.idiv(st, x * d, E18)
            yield from arith_res(st, q, 0, U128_MAX, U128, 'Uint128*Decimal overflow')
        A('Uint128*Decimal', r'<Uint128 as (?:std::ops::|core::ops::)?Mul<Decimal>>::mul$|<Decimal as (?:std::ops::|core::ops::)?Mul<Uint128>>::mul$', h_u128_mul_dec)

        def h_from_ratio(st, fn, callee, args, dty):
            a = self.num(st, args[0])
            b = self.num(st, args[1])
            for st2, z in I.truth(st, eqv(b, 0)):
                if z:
                    yield st2, Panic('Decimal::from_ratio: denominator must not be zero')
                else:
                    q, _ = I.idiv(st2, a * E18, b)
                    yield from arith_res(st2, q, 0, U128_MAX, DEC, 'Decimal::from_ratio overflow')
        A('Decimal::from_ratio', r'^Decimal::from_ratio$|cosmwasm_std::Decimal::from_ratio$', h_from_ratio)
        A('Decimal::one', r'^(cosmwasm_std::)?Decimal::one$', simple(lambda st: DEC(E18)))
        A('Decimal::zero', r'^(cosmwasm_std::)?Decimal::zero$|<Decimal as Default>::default$', simple(lambda st: DEC(0)))
        A('Decimal::percent', r'^(cosmwasm_std::)?Decimal::percent$', simple(lambda st, x: DEC(x * 10 ** 16)))
        A('Decimal::is_zero', r'^(cosmwasm_std::)?Decimal::is_zero$', simple(lambda st, x: eqv(self.num(st, x), 0)))

        def h_dec_addsub(st, fn, callee, args, dty):
            x = self.num(st, args[0])
            y = self.num(st, args[1])
            if norm(callee).endswith('::add'):
                yield from arith_res(st, x + y, 0, U128_MAX, DEC, 'Decimal add overflow')
            else:
                yield from arith_res(st, x - y, 0, U128_MAX, DEC, 'Decimal sub overflow')
        A('Decimal add/sub', r'<Decimal as (?:std::ops::|core::ops::)?(Add|Sub)>::(add|sub)$', h_dec_addsub)

        def h_dec_mul(st, fn, callee, args, dty):
            x = self.num(st, args[0])
            y = self.num(st, args[1])
            q, _ = I.idiv(st, x * y, E18)
            yield from arith_res(st, q, 0, U128_MAX, DEC, 'Decimal mul overflow')
        A('Decimal mul', r'<Decimal as (?:std::ops::|core::ops::)?Mul>::mul$', h_dec_mul)

        def h_dec_inv(st, fn, callee, args, dty):
            x = self.num(st, args[0])
            for st2, z in I.truth(st, eqv(x, 0)):
                if z:
                    yield st2, NONE
                else:
                    q, _ = I.idiv(st2, E18 * E18, x)
                    yield st2, some(DEC(q))
        A('Decimal::inv', r'<Decimal as Fraction<Uint128>>::inv$', h_dec_inv)

        # ---- further cosmwasm-std 1.5 arithmetic (semantics read from cosmwasm-std-1.5.11/src/math/{uint128,decimal}.rs):
        # not used by the pinned tree, summarised so that an edited tree that uses them is still encoded
        def h_dec_div(st, fn, callee, args, dty):
            a = self.num(st, args[0])
            b = self.num(st, args[1])
            for st2, z in I.truth(st, eqv(b, 0)):
                if z:
                    yield st2, Panic('Division failed - denominator must not be zero')
                else:
                    q, _ = I.idiv(st2, a * E18, b)
                    yield from arith_res(st2, q, 0, U128_MAX, DEC, 'Division failed - multiplication overflow')
        A('Decimal div', r'<(&)?Decimal as (?:std::ops::|core::ops::)?Div(<(&)?Decimal>)?>::div$', h_dec_div)

        def h_floor_div(wrap, what):
            def h(st, fn, callee, args, dty):
                a = self.num(st, args[0])
                b = self.num(st, args[1])
                for st2, z in I.truth(st, eqv(b, 0)):
                    if z:
                        yield st2, Panic(what)
                    else:
                        yield st2, wrap(I.idiv(st2, a, b)[0])
            return h
        A('Decimal div Uint128', r'<Decimal as (?:std::ops::|core::ops::)?Div<Uint128>>::div$', h_floor_div(DEC, 'attempt to divide by zero'))
        A('Uint128 div', r'<(&)?Uint128 as (?:std::ops::|core::ops::)?Div(<(&)?Uint128>)?>::div$', h_floor_div(U128, 'attempt to divide by zero'))

        def h_u128_rem(st, fn, callee, args, dty):
            a = self.num(st, args[0])
            b = self.num(st, args[1])
            for st2, z in I.truth(st, eqv(b, 0)):
                if z:
                    yield st2, Panic('attempt to calculate the remainder with a divisor of zero')
                else:
                    yield st2, U128(I.idiv(st2, a, b)[1])
        A('Uint128 rem', r'<(&)?Uint128 as (?:std::ops::|core::ops::)?Rem(<(&)?Uint128>)?>::rem$', h_u128_rem)

        def zite(c, a, b):
            if isinstance(c, bool):
                return a if c else b
            return z3.If(c, a, b)

        def wrap_of(callee):
            return DEC if re.search(r'(^|::)Decimal::', norm(callee)) else U128
        A('saturating_sub', r'(^|::)(Uint128|Decimal)::saturating_sub$',
          lambda st, fn, callee, args, dty: iter([(st, wrap_of(callee)(zite(self.num(st, args[0]) >= self.num(st, args[1]), self.num(st, args[0]) - self.num(st, args[1]), 0)))]))
        A('saturating_add', r'(^|::)(Uint128|Decimal)::saturating_add$',
          lambda st, fn, callee, args, dty: iter([(st, wrap_of(callee)(zite(self.num(st, args[0]) + self.num(st, args[1]) <= U128_MAX, self.num(st, args[0]) + self.num(st, args[1]), U128_MAX)))]))
        A('abs_diff', r'(^|::)(Uint128|Decimal)::abs_diff$',
          lambda st, fn, callee, args, dty: iter([(st, wrap_of(callee)(zite(self.num(st, args[0]) >= self.num(st, args[1]), self.num(st, args[0]) - self.num(st, args[1]), self.num(st, args[1]) - self.num(st, args[0]))))]))

        def h_mul_floor(ceil):
            def h(st, fn, callee, args, dty):
                x = self.num(st, args[0])
                f = I.val(st, args[1])
                if not (isinstance(f, Agg) and f.ty == 'Decimal'):
                    raise Gap('mul_floor / mul_ceil with a non-Decimal fraction')
                d = self.num(st, f)
                q, r = I.idiv(st, x * d, E18)
                if ceil:
                    q = q + zite(eqv(r, 0), 0, 1)
                yield from arith_res(st, q, 0, U128_MAX, U128, 'mul_floor / mul_ceil overflow')
            return h
        A('Uint128::mul_floor', r'(^|::)Uint128::mul_floor$', h_mul_floor(False))
        A('Uint128::mul_ceil', r'(^|::)Uint128::mul_ceil$', h_mul_floor(True))
        A('Decimal::to_uint_floor', r'(^|::)Decimal::to_uint_floor$', simple(lambda st, x: U128(I.idiv(st, self.num(st, x), E18)[0])))

        def h_to_uint_ceil(st, fn, callee, args, dty):
            q, r = I.idiv(st, self.num(st, args[0]), E18)
            yield st, U128(q + zite(eqv(r, 0), 0, 1))
        A('Decimal::to_uint_ceil', r'(^|::)Decimal::to_uint_ceil$', h_to_uint_ceil)
        A('Decimal::floor', r'(^|::)Decimal::floor$', simple(lambda st, x: DEC(I.idiv(st, self.num(st, x), E18)[0] * E18)))
        A('Decimal::atomics', r'(^|::)Decimal::atomics$|<Decimal as Fraction<Uint128>>::numerator$', simple(lambda st, x: U128(self.num(st, x))))
        A('Decimal::denominator', r'<Decimal as Fraction<Uint128>>::denominator$', simple(lambda st, x: U128(E18)))
        A('Decimal::raw', r'(^|::)Decimal::raw$|(^|::)Decimal::new$', simple(lambda st, x: DEC(self.num(st, x))))
        A('Decimal::permille', r'(^|::)Decimal::permille$', simple(lambda st, x: DEC(x * 10 ** 15)))

        def h_dec_checked(st, fn, callee, args, dty):
            k = norm(callee).split('::')[-1]
            x = self.num(st, args[0])
            y = self.num(st, args[1])
            if k == 'checked_div':
                for st2, z in I.truth(st, eqv(y, 0)):
                    if z:
                        yield st2, err(Agg('CheckedFromRatioError', (), 0, 'DivideByZero'))
                    else:
                        q, _ = I.idiv(st2, x * E18, y)
                        for st3, b in I.truth(st2, q > U128_MAX):
                            yield st3, (err(Agg('CheckedFromRatioError', (), 1, 'Overflow')) if b else ok(DEC(q)))
                return
            if k == 'checked_mul':
                r = I.idiv(st, x * y, E18)[0]
            else:
                r = x + y if k == 'checked_add' else x - y
            bad = (r < 0) if k == 'checked_sub' else (r > U128_MAX)
            for st2, b in I.truth(st, bad):
                yield st2, (err(Agg('OverflowError', ())) if b else ok(DEC(r)))
        A('Decimal checked', r'(^|::)Decimal::checked_(add|sub|mul|div)$', h_dec_checked)

        def h_assign(kind):
            def h(st, fn, callee, args, dty):
                k = norm(callee).split('::')[-1]
                r = args[0]
                cur = I.val(st, r)
                is_dec = isinstance(cur, Agg) and cur.ty == 'Decimal'
                wrap = DEC if is_dec else U128
                x = self.num(st, r)
                y = self.num(st, args[1])
                if k == 'mul_assign':
                    v = I.idiv(st, x * y, E18)[0] if is_dec else x * y
                    gen = arith_res(st, v, 0, U128_MAX, wrap, 'mul_assign overflow')
                elif k == 'div_assign':
                    def g():
                        for st2, z in I.truth(st, eqv(y, 0)):
                            if z:
                                yield st2, Panic('attempt to divide by zero')
                            elif is_dec and isinstance(I.val(st2, args[1]), Agg) and I.val(st2, args[1]).ty == 'Decimal':
                                yield from arith_res(st2, I.idiv(st2, x * E18, y)[0], 0, U128_MAX, wrap, 'Division failed - multiplication overflow')
                            else:
                                yield st2, wrap(I.idiv(st2, x, y)[0])
                    gen = g()
                else:
                    v = x + y if k == 'add_assign' else x - y
                    gen = arith_res(st, v, 0, U128_MAX, wrap, 'Decimal %s overflow' % k)
                for st2, res in gen:
                    if not isinstance(res, Panic):
                        I.store(st2, r, res)
                        res = UNIT
                    yield st2, res
            return h
        A('Decimal assign', r'<Decimal as (AddAssign|SubAssign|MulAssign|DivAssign)(<.*>)?>::(add_assign|sub_assign|mul_assign|div_assign)$', h_assign('d'))
        A('Uint128 mul/div assign', r'<Uint128 as (MulAssign|DivAssign)(<.*>)?>::(mul_assign|div_assign)$', h_assign('u'))

        A('Uint128 ctor', r'^(cosmwasm_std::)?Uint128::new$|<Uint128 as From<u(8|16|32|64|128)>>::from$|'
                          r'<u(8|16|32|64|128) as Into<Uint128>>::into$', simple(lambda st, x: U128(x)))
        A('Uint128::u128', r'^(cosmwasm_std::)?Uint128::u128$|<u128 as From<Uint128>>::from$|<Uint128 as Into<u128>>::into$',
          simple(lambda st, x: self.num(st, x)))
        A('Uint128::zero', r'^(cosmwasm_std::)?Uint128::zero$|<Uint128 as Default>::default$', simple(lambda st: U128(0)))
        A('Uint128::one', r'^(cosmwasm_std::)?Uint128::one$', simple(lambda st: U128(1)))
        A('Uint128::is_zero', r'^(cosmwasm_std::)?Uint128::is_zero$', simple(lambda st, x: eqv(self.num(st, x), 0)))
        A('prim default', r'<(u8|u16|u32|u64|u128|usize) as Default>::default$', simple(lambda st: 0))
        A('bool default', r'<bool as Default>::default$', simple(lambda st: False))
        A('Timestamp::seconds', r'Timestamp::seconds$', simple(lambda st, x: self.num(st, x)))
        A('u32::min', r'<u32 as Ord>::min$', None)  # replaced below by cmp (kept for documentation)
        self.table.pop()

        # ---------------- bigint::U256 and the limb/ string based conversions of cosmwasm-bignumber
        U256M = 2 ** 256 - 1
        W256 = lambda v: Agg('U256', (v,))   # noqa

        def h_u256_op(st, fn, callee, args, dty):
            k = norm(callee).split('::')[-1]
            x = self.num(st, args[0])
            y = self.num(st, args[1])
            if k == 'add':
                yield from arith_res(st, x + y, 0, U256M, W256, 'U256 add overflow')
            elif k == 'sub':
                yield from arith_res(st, x - y, 0, U256M, W256, 'U256 sub overflow')
            elif k == 'mul':
                yield from arith_res(st, x * y, 0, U256M, W256, 'U256 mul overflow')
            elif k == 'div':
                for st2, z in I.truth(st, eqv(y, 0)):
                    if z:
                        yield st2, Panic('U256 division by zero')
                    else:
                        yield st2, W256(I.idiv(st2, x, y)[0])
        A('U256 ops', r'<U256 as (std::ops::)?(Add|Sub|Mul|Div)(<U256>)?>::(add|sub|mul|div)$', h_u256_op)
        A('U256::is_zero', r'^U256::is_zero$|bigint::U256::is_zero$', simple(lambda st, x: eqv(self.num(st, x), 0)))
        A('U256 from int', r'<U256 as From<(u8|u16|u32|u64|usize|i32|u128)>>::from$|<(u64|usize|u32|u128) as Into<U256>>::into$',
          simple(lambda st, x: W256(x)))
        A('U256 default', r'<U256 as Default>::default$', simple(lambda st: W256(0)))

        def h_generic_into(st, fn, callee, args, dty):
            c = norm(callee)
            m = re.match(r'<(\w+) as Into<([\w:]+)>>::into$', c)
            tgt = m.group(2).split('::')[-1]
            v = I.val(st, args[0])
            src = v.ty if isinstance(v, Agg) else ('int' if (isinstance(v, int) or is_sym(v)) else type(v).__name__)
            if src == tgt:
                yield st, v
                return
            n = self.num(st, v)
            if tgt == 'U256':
                yield st, W256(n)
            elif tgt == 'Uint256':
                yield st, Agg('Uint256', (W256(n),))
            elif tgt == 'Uint128':
                yield from arith_res(st, n, 0, U128_MAX, U128, 'Uint256 -> Uint128: value does not fit (assert arr[2]==0)')
            elif tgt == 'String':
                yield st, self.to_str(st, v)
            else:
                raise Gap('generic into %s -> %s' % (src, tgt))
        A('generic Into', r'^<[A-Z]\w? as Into<(U256|Uint128|math::Uint256|Uint256|cosmwasm_bignumber::Uint256|std::string::String)>>::into$',
          h_generic_into)

        def h_uint256_from(st, fn, callee, args, dty):
            yield st, Agg('Uint256', (W256(self.num(st, args[0])),))
        A('Uint256 from', r'<(math::|cosmwasm_bignumber::)?Uint256 as From<(u128|u64|Uint128|U256)>>::from$|'
                          r'<(Uint128|u128|u64|U256) as Into<(math::|cosmwasm_bignumber::)?Uint256>>::into$', h_uint256_from)

        def h_uint256_into128(st, fn, callee, args, dty):
            n = self.num(st, args[0])
            wrap = U128 if 'Uint128' in norm(callee) else (lambda x: x)
            yield from arith_res(st, n, 0, U128_MAX, wrap, 'Uint256 -> u128: value does not fit (assert arr[2]==0)')
        A('Uint256 into 128', r'<(math::|cosmwasm_bignumber::)?Uint256 as Into<(u128|Uint128)>>::into$|'
                              r'<(u128|Uint128) as From<(math::|cosmwasm_bignumber::)?Uint256>>::from$', h_uint256_into128)

        def h_dec256_from_dec(st, fn, callee, args, dty):
            yield st, Agg('Decimal256', (W256(self.num(st, args[0])),))
        A('Decimal256 from Decimal', r'<(math::|cosmwasm_bignumber::)?Decimal256 as From<Decimal>>::from$|'
                                     r'<Decimal as Into<(math::|cosmwasm_bignumber::)?Decimal256>>::into$', h_dec256_from_dec)

        def h_dec_from_dec256(st, fn, callee, args, dty):
            n = self.num(st, args[0])
            yield from arith_res(st, n, 0, U128_MAX, DEC, 'Decimal256 -> Decimal: value does not fit')
        A('Decimal from Decimal256', r'<(math::|cosmwasm_bignumber::)?Decimal256 as Into<Decimal>>::into$|'
                                     r'<Decimal as From<(math::|cosmwasm_bignumber::)?Decimal256>>::from$', h_dec_from_dec256)

        # ---------------- Vec / slices / iterators
        A('Vec::new', r'Vec::new$|Vec::with_capacity$|<std::vec::Vec<.*> as Default>::default$', simple(lambda st, *a: VecV(())))

        def h_vec_push(st, fn, callee, args, dty):
            v = I.load(st, args[0])
            if isinstance(v, KeyV):
                # a byte appended to a key built from to_be_bytes (pagination cursors)
                b_ = args[1]
                if not isinstance(b_, int):
                    raise Gap('symbolic byte pushed onto a storage key')
                I.store(st, args[0], KeyV(v.parts + (('b', bytes([b_])),)))
                yield st, UNIT
                return
            I.store(st, args[0], VecV(v.items + (args[1],), v.elem))
            yield st, UNIT
        A('Vec::push', r'Vec::push$', h_vec_push)

        def h_vec_append(st, fn, callee, args, dty):
            v = I.load(st, args[0])
            o = I.load(st, args[1])
            I.store(st, args[0], VecV(v.items + o.items, v.elem))
            I.store(st, args[1], VecV((), o.elem))
            yield st, UNIT
        A('Vec::append', r'Vec::append$', h_vec_append)

        def h_vec_truncate(st, fn, callee, args, dty):
            v = I.load(st, args[0])
            n = args[1]
            if not isinstance(v, VecV):
                raise Gap('truncate of a non-vector value')
            if not isinstance(n, int):
                # symbolic length: decide against the (concrete) number of elements
                for st2, t in I.truth(st, n >= len(v.items)):
                    if t:
                        yield st2, UNIT
                    else:
                        for k in range(len(v.items)):
                            st3 = st2.clone()
                            st3.add(n == k)
                            I.store(st3, args[0], VecV(v.items[:k], v.elem))
                            yield st3, UNIT
                return
            I.store(st, args[0], VecV(v.items[:n], v.elem))
            yield st, UNIT
        A('Vec::truncate', r'Vec::truncate$', h_vec_truncate)
        A('len', r'Vec::len$|core::slice::<impl \[.*\]>::len$|^core::slice::len$', simple(lambda st, v: I.length(I.val(st, v))))
        A('is_empty', r'Vec::is_empty$|core::slice::<impl \[.*\]>::is_empty$|^core::slice::is_empty$',
          simple(lambda st, v: I.length(I.val(st, v)) == 0))

        def h_index(st, fn, callee, args, dty):
            r, idx = args
            if not isinstance(idx, int):
                raise Gap('symbolic Vec index')
            v = I.val(st, r)
            n = I.length(v)
            if idx >= n:
                yield st, Panic('index out of bounds')
                return
            if isinstance(r, Ref):
                yield st, Ref(r.cell, r.path + (('i', idx),))
            else:
                raise Gap('index on non-ref')
        A('Vec index', r' as (std::ops::)?(Index|IndexMut)<usize>>::(index|index_mut)$', h_index)

        def h_from_elem(st, fn, callee, args, dty):
            if not isinstance(args[1], int):
                raise Gap('vec![x; n] with symbolic n')
            yield st, VecV([args[0]] * args[1])
        A('vec::from_elem', r'vec::from_elem$', h_from_elem)

        def h_box_new_uninit(st, fn, callee, args, dty):
            yield st, Ref(st.new_cell(None), ())
        A('Box::new_uninit', r'Box::new_uninit$', h_box_new_uninit)

        def h_box_into_vec(st, fn, callee, args, dty):
            v = I.val(st, args[0])
            while isinstance(v, Sparse):
                if len(v.d) != 1:
                    raise Gap('box_assume_init_into_vec on %r' % (v.d,))
                v = list(v.d.values())[0]
            if isinstance(v, Agg) and v.ty == '[]':
                yield st, VecV(v.fields)
            else:
                raise Gap('box_assume_init_into_vec: %r' % (v,))
        A('vec! lowering', r'box_assume_init_into_vec_unsafe$|slice::<impl \[.*\]>::into_vec$|^slice::into_vec$', h_box_into_vec)

        def h_iter(st, fn, callee, args, dty):
            yield st, Iter('slice', ref=args[0], pos=0, n=I.length(I.val(st, args[0])))
        A('slice::iter', r'core::slice::<impl \[.*\]>::iter(_mut)?$|^core::slice::iter(_mut)?$|Vec::iter(_mut)?$', h_iter)

        def h_into_iter(st, fn, callee, args, dty):
            v = args[0]
            if isinstance(v, Iter):
                yield st, v
            elif isinstance(v, VecV):
                yield st, Iter('vec', items=v.items, pos=0)
            elif isinstance(v, Ref):
                yield st, Iter('slice', ref=v, pos=0, n=I.length(I.val(st, v)))
            elif isinstance(v, Agg) and v.ty == 'Range':
                yield st, Iter('range', cur=v.fields[0], end=v.fields[1])
            elif isinstance(v, Agg) and v.ty == '[]':
                yield st, Iter('vec', items=v.fields, pos=0)
            else:
                raise Gap('into_iter of %r' % (v,))
        A('into_iter', r' as IntoIterator>::into_iter$', h_into_iter)
        A('iter adaptor map', r' as Iterator>::map$', simple(lambda st, it, f: Iter('map', inner=it, f=f)))
        A('iter adaptor enumerate', r' as Iterator>::enumerate$', simple(lambda st, it: Iter('enum', inner=it, n=0)))
        A('iter adaptor take', r' as Iterator>::take$', simple(lambda st, it, n: Iter('take', inner=it, left=n)))
        A('iter adaptor skip', r' as Iterator>::skip$', simple(lambda st, it, n: Iter('skip', inner=it, left=n)))
        A('int from bool', r'<(u8|u16|u32|u64|u128|usize|i32|i64) as From<bool>>::from$', simple(lambda st, b: (int(b) if isinstance(b, bool) else z3.If(b, 1, 0))))
        A('iter adaptor filter', r' as Iterator>::filter$', simple(lambda st, it, f: Iter('filter', inner=it, f=f)))

        def h_next(st, fn, callee, args, dty):
            r = args[0]
            it = I.val(st, r)
            for st2, it2, item in self.iter_next(st, it):
                if isinstance(item, Panic):
                    yield st2, item
                    continue
                if isinstance(r, Ref):
                    I.store(st2, r, it2)
                yield st2, (NONE if item is None else some(item))
        A('Iterator::next', r' as Iterator>::next$', h_next)

        def h_collect(st, fn, callee, args, dty):
            want_result = dty is not None and base_name(dty) == 'Result'
            for st2, items in self.drain(st, args[0]):
                if isinstance(items, Panic):
                    yield st2, items
                    continue
                if want_result:
                    out = []
                    bad = None
                    for it in items:
                        it = I.val(st2, it)
                        if isinstance(it, SymEnum):
                            raise Gap('collect over symbolic Result items')
                        if it.variant == 1:
                            bad = it
                            break
                        out.append(it.fields[0])
                    yield st2, (bad if bad is not None else ok(VecV(out)))
                else:
                    yield st2, VecV(items)
        A('Iterator::collect', r' as Iterator>::collect$', h_collect)

        def h_sum(st, fn, callee, args, dty):
            for st2, items in self.drain(st, args[0]):
                if isinstance(items, Panic):
                    yield st2, items
                    continue
                acc = 0
                for x in items:
                    acc = acc + self.num(st2, x)
                m = re.search(r'::sum::<(\w+)>', callee)
                ty = m.group(1) if m else 'u128'
                if ty in INT_RANGE:
                    yield from arith_res(st2, acc, INT_RANGE[ty][0], INT_RANGE[ty][1], lambda x: x, 'iterator sum overflow')
                elif ty == 'Uint128':
                    yield from arith_res(st2, acc, 0, U128_MAX, U128, 'iterator sum overflow')
                else:
                    raise Gap('sum of ' + ty)
        A('Iterator::sum', r' as Iterator>::sum$', h_sum)

        def h_find(st, fn, callee, args, dty):
            r = args[0]
            it = I.val(st, r)

            def rec(st, it):
                for st2, it2, item in self.iter_next(st, it):
                    if item is None:
                        if isinstance(r, Ref):
                            I.store(st2, r, it2)
                        yield st2, NONE
                        continue
                    cell = st2.new_cell(item)
                    for st3, b in I.call_callable(st2, args[1], [Ref(cell, ())]):
                        if isinstance(b, Panic):
                            yield st3, b
                            continue
                        for st4, t in I.truth(st3, b):
                            if t:
                                if isinstance(r, Ref):
                                    I.store(st4, r, it2)
                                yield st4, some(item)
                            else:
                                yield from rec(st4, it2)
            yield from rec(st, it)
        A('Iterator::find', r' as Iterator>::find$', h_find)

        def h_contains(st, fn, callee, args, dty):
            v = I.val(st, args[0])
            x = args[1]
            items = v.items if isinstance(v, VecV) else v.fields
            yield st, z3_or(*[self.struct_eq(st, it, x) for it in items])
        A('slice::contains', r'slice::<impl \[.*\]>::contains$|^core::slice::contains$|Vec::contains$', h_contains)

        def h_concat(st, fn, callee, args, dty):
            v = I.val(st, args[0])
            items = v.items if isinstance(v, VecV) else v.fields
            out = ()
            for x in items:
                x = I.val(st, x)
                out += x.items if isinstance(x, VecV) else x.fields
            yield st, VecV(out)
        A('slice::concat', r'slice::<impl \[.*\]>::concat$|^slice::concat$', h_concat)

        def h_sort_by(st, fn, callee, args, dty):
            r = args[0]
            v = I.val(st, r)
            items = list(v.items if isinstance(v, VecV) else v.fields)
            f = args[1] if len(args) > 1 else None

            def less(st, a, b):
                """generator (st, bool): a should come strictly before b?"""
                ca = st.new_cell(a)
                cb = st.new_cell(b)
                if f is None:
                    va, vb = I.val(st, a), I.val(st, b)
                    if isinstance(va, StrV) and isinstance(vb, StrV):
                        # any total order that is consistent with equality (strings are opaque ids)
                        yield from I.truth(st, va.id < vb.id)
                    else:
                        yield from I.truth(st, self.num(st, a) < self.num(st, b))
                    return
                for st2, o in I.call_callable(st, f, [Ref(ca, ()), Ref(cb, ())]):
                    for st3, oc in self.conc(st2, o):
                        yield st3, oc.variant == 0

            def insert(st, sorted_items, x, pos):
                # stable insertion: walk from the end
                if pos == 0:
                    yield st, [x] + sorted_items
                    return
                for st2, lt in less(st, x, sorted_items[pos - 1]):
                    if lt:
                        for st3, res in insert(st2, sorted_items[:pos - 1], x, pos - 1):
                            yield st3, res + sorted_items[pos - 1:]
                    else:
                        yield st2, sorted_items[:pos] + [x] + sorted_items[pos:]

            def rec(st, done, rest):
                if not rest:
                    yield st, done
                    return
                for st2, d2 in insert(st, done, rest[0], len(done)):
                    yield from rec(st2, d2, rest[1:])
            for st2, res in rec(st, [], items):
                I.store(st2, r, VecV(res) if isinstance(v, VecV) else Agg('[]', res))
                yield st2, UNIT
        A('sort_by', r'slice::<impl \[.*\]>::sort(_by)?$|^slice::sort(_by)?$|^std::slice::sort$', h_sort_by)

        def h_retain(st, fn, callee, args, dty):
            r = args[0]
            v = I.val(st, r)

            def rec(st, kept, rest):
                if not rest:
                    I.store(st, r, VecV(kept, v.elem))
                    yield st, UNIT
                    return
                c = st.new_cell(rest[0])
                for st2, b in I.call_callable(st, args[1], [Ref(c, ())]):
                    for st3, t in I.truth(st2, b):
                        yield from rec(st3, kept + [rest[0]] if t else kept, rest[1:])
            yield from rec(st, [], list(v.items))
        A('Vec::retain', r'Vec::retain$', h_retain)

        def h_dedup(st, fn, callee, args, dty):
            r = args[0]
            v = I.val(st, r)

            def rec(st, kept, rest):
                if not rest:
                    I.store(st, r, VecV(kept, v.elem))
                    yield st, UNIT
                    return
                if not kept:
                    yield from rec(st, [rest[0]], rest[1:])
                    return
                for st2, t in I.truth(st, self.struct_eq(st, kept[-1], rest[0])):
                    yield from rec(st2, kept if t else kept + [rest[0]], rest[1:])
            yield from rec(st, [], list(v.items))
        A('Vec::dedup', r'Vec::dedup$', h_dedup)

        # ---------------- strings
        A('str::is_empty', r'str::is_empty$|String::is_empty$|^core::str::is_empty$',
          simple(lambda st, s: eqv(self.to_str(st, s).id, I.intern(''))))
        A('to_lowercase', r'str::to_lowercase$|^std::str::to_lowercase$|str::to_ascii_lowercase$', simple(lambda st, s: self.lower(st, s)))

        A('str::trim', r'str::trim(_start|_end)?$|^core::str::trim$', simple(lambda st, s: self.to_str(st, s)))

        def h_verify_logo(st, fn, callee, args, dty):
            # logo validation (XML/PNG sniffing) is outside every claim: arbitrary verdict
            st2 = st.clone()
            yield st2, err(Agg('ContractError', (), 0, 'InvalidLogo'))
            yield st, ok(UNIT)
        A('verify_logo (havoc)', r'^verify_logo$|cw20_base::contract::verify_logo$', h_verify_logo)

        # token name / symbol syntax checks work on string bytes, which SMIR does not model: arbitrary verdict
        def h_valid_str(st, fn, callee, args, dty):
            b = I.fresh('valid_syntax', 'bool')
            yield st, b
        A('is_valid_name/symbol (havoc)', r'(^|::)(is|has)_valid_(name|symbol)$', h_valid_str)

        # ---------------- cosmwasm api
        A('addr_validate', r'Api>::addr_validate$', simple(lambda st, api, s: ok(Agg('Addr', (self.to_str(st, s),)))))
        A('addr_canonicalize', r'Api>::addr_canonicalize$', simple(lambda st, api, s: ok(Agg('CanonicalAddr', (self.to_str(st, s),)))))
        A('addr_humanize', r'Api>::addr_humanize$', simple(lambda st, api, c: ok(Agg('Addr', (self.to_str(st, I.val(st, c).fields[0]),)))))
        A('DepsMut::as_ref', r'DepsMut::as_ref$|DepsMut::branch$', simple(lambda st, d: I.val(st, d)))

        # ---------------- response plumbing
        def new_response():
            return Agg('Response', (VecV(()), VecV(()), VecV(()), NONE))
        A('Response::new', r'Response::new$|<Response as Default>::default$', simple(lambda st: new_response()))

        def submsg(m):
            return Agg('SubMsg', (0, m, NONE, Agg('ReplyOn', (), 3, 'Never')))
        A('SubMsg::new', r'SubMsg::new$', simple(lambda st, m: submsg(self.to_cosmos(st, m))))

        def h_add_message(st, fn, callee, args, dty):
            r = args[0]
            m = self.to_cosmos(st, args[1])
            yield st, r.with_field(0, VecV(r.fields[0].items + (submsg(m),)))
        A('Response::add_message', r'Response::add_message$', h_add_message)

        def h_add_messages(st, fn, callee, args, dty):
            r = args[0]
            for st2, items in self.drain(st, args[1]):
                ms = tuple(submsg(self.to_cosmos(st2, m)) for m in items)
                yield st2, r.with_field(0, VecV(r.fields[0].items + ms))
        A('Response::add_messages', r'Response::add_messages$', h_add_messages)

        def h_add_submessage(st, fn, callee, args, dty):
            r = args[0]
            yield st, r.with_field(0, VecV(r.fields[0].items + (args[1],)))
        A('Response::add_submessage', r'Response::add_submessage$', h_add_submessage)

        def h_add_submessages(st, fn, callee, args, dty):
            r = args[0]
            for st2, items in self.drain(st, args[1]):
                yield st2, r.with_field(0, VecV(r.fields[0].items + tuple(items)))
        A('Response::add_submessages', r'Response::add_submessages$', h_add_submessages)

        def mkattr(k, v):
            return Agg('Attribute', (k, v))

        def h_add_attribute(st, fn, callee, args, dty):
            r = args[0]
            yield st, r.with_field(1, VecV(r.fields[1].items + (mkattr(args[1], args[2]),)))
        A('Response::add_attribute', r'Response::add_attribute$', h_add_attribute)

        def h_add_attributes(st, fn, callee, args, dty):
            r = args[0]
            for st2, items in self.drain(st, args[1]):
                out = []
                for a in items:
                    a = I.val(st2, a)
                    if isinstance(a, Agg) and a.ty == '()':
                        a = mkattr(a.fields[0], a.fields[1])
                    out.append(a)
                yield st2, r.with_field(1, VecV(r.fields[1].items + tuple(out)))
        A('Response::add_attributes', r'Response::add_attributes$', h_add_attributes)
        A('Response::set_data', r'Response::set_data$', simple(lambda st, r, d: r.with_field(3, some(d))))
        A('attr', r'^attr$|cosmwasm_std::attr$', simple(lambda st, k, v: mkattr(k, v)))
        A('coins', r'^coins$|cosmwasm_std::coins$', simple(lambda st, a, d: VecV((Agg('Coin', (self.to_str(st, d), U128(a))),))))
        A('coin', r'^coin$|cosmwasm_std::coin$|Coin::new$', simple(lambda st, a, d: Agg('Coin', (self.to_str(st, d), U128(self.num(st, a))))))
        A('Into<CosmosMsg>', r'<(BankMsg|StakingMsg|DistributionMsg|WasmMsg) as Into<CosmosMsg(<.*>)?>>::into$|'
                             r'<CosmosMsg(<.*>)? as From<(BankMsg|StakingMsg|DistributionMsg|WasmMsg)>>::from$',
          simple(lambda st, m: self.to_cosmos(st, m)))

        def h_into_cosmos_msg(st, fn, callee, args, dty):
            recv = args[0]
            addr = self.to_str(st, args[1])
            td = I.types.lookup('WasmMsg', 'cosmwasm_std')
            vi = td.variant_index('Execute')
            msg = JsonV(Agg('ReceiverExecuteMsg', (recv,), 0, 'Receive'), 'ReceiverExecuteMsg')
            w = Agg('WasmMsg', (addr, msg, VecV(())), vi, 'Execute')
            yield st, ok(self.to_cosmos(st, w))
        A('Cw20ReceiveMsg::into_cosmos_msg', r'Cw20ReceiveMsg::into_cosmos_msg$', h_into_cosmos_msg)

        # ---------------- json
        def h_to_json(st, fn, callee, args, dty):
            m = re.search(r'to_(?:json_)?(?:binary|vec)::<(.*)>$', callee)
            yield st, ok(JsonV(I.val(st, args[0]), m.group(1) if m else None))
        A('to_json', r'^(cosmwasm_std::)?to_json_binary$|^(cosmwasm_std::)?to_binary$|^(cosmwasm_std::)?to_json_vec$|^(cosmwasm_std::)?to_vec$', h_to_json)

        def h_from_json(st, fn, callee, args, dty):
            v = I.val(st, args[0])
            m = re.search(r'from_(?:json|binary|slice)::<(.*)>$', callee)
            tys = split_top(m.group(1)) if m else []
            if not isinstance(v, JsonV):
                raise Gap('from_json of non-JSON value %r' % (v,))
            inner = v.v
            if isinstance(inner, Agg) and inner.ty == 'JsonErr':
                yield st, err(stderr(I.S('parse error')))
                return
            if isinstance(inner, Agg) and inner.ty == 'OpaqueBinary':
                # arbitrary bytes: either they do not parse, or they parse to an arbitrary value of the target type
                if not tys:
                    raise Gap('from_json of opaque binary without a target type')
                st2 = st.clone()
                yield st2, err(stderr(I.S('parse error')))
                from .symval import fresh_value
                yield st, ok(fresh_value(I, st, tys[0], fn.crate, 'parsed'))
                return
            yield st, ok(self.wire_convert(st, inner, tys[0] if tys else None, fn.crate))
        A('from_json', r'^(cosmwasm_std::)?from_json$|^(cosmwasm_std::)?from_binary$|^(cosmwasm_std::)?from_slice$', h_from_json)

        # ---------------- errors
        A('StdError ctor', r'StdError::(generic_err|not_found|overflow|parse_err|invalid_utf8|serialize_err|divide_by_zero)$',
          simple(lambda st, *a: stderr(a[0] if a else None)))
        A('error conv', r'<(cosmwasm_std::)?(StdError|OverflowError|ContractError|\w+::ContractError) as Into<.*>>::into$|'
                        r'<\w*(::)?ContractError as From<.*>>::from$|<(cosmwasm_std::)?StdError as From<.*>>::from$', ident)

        # ---------------- misc numerics
        A('to_be_bytes', r'core::num::<impl u\d+>::to_be_bytes$|^core::num::to_be_bytes$', simple(lambda st, x: KeyV((x,))))

        def h_is_expired(st, fn, callee, args, dty):
            block = I.val(st, args[1])
            height = block.fields[0]
            time = self.num(st, block.fields[1])
            for st2, e in self.conc(st, args[0]):
                if e.vname == 'AtHeight':
                    yield st2, height >= e.fields[0]
                elif e.vname == 'AtTime':
                    yield st2, time >= self.num(st2, e.fields[0])
                else:
                    yield st2, False
        A('Expiration::is_expired', r'Expiration::is_expired$', h_is_expired)
        A('Expiration default', r'<Expiration as Default>::default$', simple(lambda st: Agg('Expiration', (), 2, 'Never')))
        def h_derived_default(st, fn, callee, args, dty):
            m_ = re.match(r'<(.+) as (?:std::default::|core::default::)?Default>::default$', norm(callee))
            yield st, self.default_of(st, m_.group(1), fn.crate)
        A('derived Default', r'^<[A-Z][\w:]*(<.*>)? as (?:std::default::|core::default::)?Default>::default$', h_derived_default)

        # ---------------- cw2
        A('cw2', r'set_contract_version$', simple(lambda st, *a: ok(UNIT)))

        # ---------------- HashMap (keys compared structurally)
        A('HashMap::new', r'HashMap::new$', simple(lambda st: Agg('HashMap', ())))

        def h_hm_insert(st, fn, callee, args, dty):
            r, k, v = args
            hm = I.val(st, r)
            entries = list(hm.fields)

            def rec(st, i):
                if i == len(entries):
                    I.store(st, r, Agg('HashMap', entries + [Agg('()', (k, v))]))
                    yield st, NONE
                    return
                for st2, t in I.truth(st, self.struct_eq(st, entries[i].fields[0], k)):
                    if t:
                        e2 = list(entries)
                        old = e2[i].fields[1]
                        e2[i] = Agg('()', (k, v))
                        I.store(st2, r, Agg('HashMap', e2))
                        yield st2, some(old)
                    else:
                        yield from rec(st2, i + 1)
            yield from rec(st, 0)
        A('HashMap::insert', r'HashMap::insert$', h_hm_insert)

        def h_hm_get(st, fn, callee, args, dty):
            r, k = args
            hm = I.val(st, r)
            entries = list(hm.fields)

            def rec(st, i):
                if i == len(entries):
                    yield st, NONE
                    return
                for st2, t in I.truth(st, self.struct_eq(st, entries[i].fields[0], k)):
                    if t:
                        yield st2, some(Ref(st2.new_cell(entries[i].fields[1]), ()))
                    else:
                        yield from rec(st2, i + 1)
            yield from rec(st, 0)
        A('HashMap::get', r'HashMap::get$', h_hm_get)

        from . import env
        env.install(self)

        # ---------------- function contracts (merged closed forms of repository kernels; see add_contract)
        U256M_ = 2 ** 256 - 1

        def c_from_subtraction(st, fn, callee, args, dty):
            a = self.num(st, args[0])
            b = self.num(st, args[1])
            # Into<Uint128> of a Uint256 argument asserts that it fits
            big = z3_or(a > U128_MAX, b > U128_MAX) if (is_sym(a) or is_sym(b)) else (a > U128_MAX or b > U128_MAX)
            for st2, t in I.truth(st, big):
                if t:
                    yield st2, Panic('SignedInt::from_subtraction: operand does not fit Uint128')
                else:
                    neg = a < b
                    yield st2, Agg('SignedInt', (U128(ite(neg, b - a, a - b)), neg))
        self.add_contract('SignedInt::from_subtraction', r'SignedInt::from_subtraction$', c_from_subtraction)

        def c_u256_mul_dec(st, fn, callee, args, dty):
            x = self.num(st, args[0])
            d = self.num(st, args[1])
            a0 = I.val(st, args[0])
            if isinstance(a0, Agg) and a0.ty == 'Decimal256':
                x, d = d, x
            q, _ = I.idiv(st, x * d, E18)
            prod = x * d
            bad = prod > U256M_
            for st2, t in I.truth(st, bad):
                if t:
                    yield st2, Panic('U256 mul overflow')
                else:
                    yield st2, Agg('Uint256', (Agg('U256', (q,)),))
        self.add_contract('Uint256*Decimal256', r'<(cosmwasm_bignumber::|math::)?Uint256 as (?:std::ops::|core::ops::)?Mul<(cosmwasm_bignumber::|math::)?Decimal256>>::mul$|'
                                                r'<(cosmwasm_bignumber::|math::)?Decimal256 as (?:std::ops::|core::ops::)?Mul<(cosmwasm_bignumber::|math::)?Uint256>>::mul$', c_u256_mul_dec)

        def c_new_withdraw_rate(st, fn, callee, args, dty):
            amount = self.num(st, args[0])
            rate = self.num(st, args[1])
            total = self.num(st, args[2])
            sl = I.val(st, args[3])
            mag = self.num(st, sl.fields[0])
            neg = sl.fields[1]
            unb, _ = I.idiv(st, amount * rate, E18)
            w = I.gdiv(st, unb * E18, total)
            share, _ = I.idiv(st, w * mag, E18)
            # valid consequences of the two division lemmas (help the nonlinear solver; they constrain nothing new)
            st.add(z3.Implies(unb <= total, z3.And(w <= E18, share <= mag)))
            st.add(z3.Implies(total == 0, share == 0))
            pos_share = share + ite(mag != 0, 1, 0)
            actual = ite(neg, unb + ite(share > 1, share - 1, 0), ite(unb >= pos_share, unb - pos_share, 0))
            res = ite(amount != 0, I.gdiv(st, actual * E18, amount), rate)
            bad = z3_or(res > U128_MAX, actual > U128_MAX, unb > U128_MAX, z3.And(z3.Not(neg), pos_share > U128_MAX))
            for st2, t in I.truth(st, bad):
                if t:
                    yield st2, Panic('calculate_new_withdraw_rate: value does not fit 128 bits')
                else:
                    yield st2, DEC(res)
        self.add_contract('calculate_new_withdraw_rate', r'(^|::)calculate_new_withdraw_rate$', c_new_withdraw_rate)

    # ------------------------------------------------------------------ more helpers
    def h_ord_reverse(self, st, args):
        for st2, o in self.conc(st, args[0]):
            i = 2 - o.variant
            yield st2, Agg('Ordering', (), i, ('Less', 'Equal', 'Greater')[i])

    def rewrap(self, like, n):
        if isinstance(like, Agg) and len(like.fields) == 1:
            return Agg(like.ty, (self.rewrap(like.fields[0], n),), like.variant, like.vname)
        return n

    def to_str(self, st, v):
        v = self.I.val(st, v)
        if isinstance(v, StrV):
            return v
        if isinstance(v, Agg) and v.ty in ('Addr', 'CanonicalAddr') and isinstance(v.fields[0], StrV):
            return v.fields[0]
        if isinstance(v, Agg) and v.ty == 'Shown':
            return v
        if isinstance(v, BytesV):
            return self.I.S(v.b.decode('latin-1'))
        if isinstance(v, KeyV) and len(v.parts) == 1 and isinstance(v.parts[0], StrV):
            return v.parts[0]
        raise Gap('not a string: %r' % (v,))

    def bytes_view(self, st, callee, v):
        v = self.I.val(st, v)
        c = norm(callee)
        if 'CanonicalAddr as From' in c:
            return Agg('CanonicalAddr', (self.to_str(st, v),))
        if isinstance(v, Agg) and v.ty in ('Addr', 'CanonicalAddr'):
            return KeyV((v.fields[0],))
        if isinstance(v, StrV):
            return KeyV((v,))
        if isinstance(v, JsonV):
            return v
        raise Gap('bytes view of %r' % (v,))

    def lower(self, st, s):
        """str::to_lowercase.  Literals are lower-cased; for a symbolic string x the result is a fresh string r with
        is_lower(x) -> r = x, not is_lower(x) -> r != x, is_lower(r)  (is_lower: uninterpreted predicate on string ids, fixed on
        the interned literals).  The pair is recorded so that a replay can spell x with upper-case letters."""
        I = self.I
        sv = self.to_str(st, s)
        if isinstance(sv.id, int):
            if sv.id in I.strings_rev:
                return StrV(I.intern(I.strings_rev[sv.id].lower()))
            return sv
        is_lower = z3.Function('str_is_lower', z3.IntSort(), z3.BoolSort())
        r = I.fresh('lowered')
        cs = [z3.Implies(is_lower(sv.id), r == sv.id), z3.Implies(z3.Not(is_lower(sv.id)), r != sv.id), is_lower(r)]
        for lit, i in list(I.strings.items()):
            cs.append(is_lower(i) == (lit == lit.lower()))
            if lit != lit.lower():
                cs.append(z3.Implies(sv.id == i, r == I.intern(lit.lower())))
        st.add(*cs)
        st.ghost['lowers'] = st.ghost.get('lowers', ()) + ((sv.id, r),)
        return StrV(r)

    def to_cosmos(self, st, m):
        I = self.I
        m = I.val(st, m)
        if isinstance(m, Agg) and m.ty == 'CosmosMsg':
            return m
        td = I.types.lookup('CosmosMsg', 'cosmwasm_std')
        names = {'BankMsg': 'Bank', 'StakingMsg': 'Staking', 'DistributionMsg': 'Distribution', 'WasmMsg': 'Wasm'}
        if isinstance(m, Agg) and m.ty in names:
            vn = names[m.ty]
            return Agg('CosmosMsg', (m,), td.variant_index(vn), vn)
        raise Gap('cannot convert %r into CosmosMsg' % (m,))

    def wire_convert(self, st, v, target_ty, crate):
        """re-type a value that travelled as JSON: enums are matched by variant *name* (serde)."""
        I = self.I
        if target_ty is None:
            return v
        td = I.types.lookup(target_ty, crate)
        if td is None:
            return v
        if isinstance(v, SymEnum):
            return SymEnum(v.tag, [self.wire_convert(st, a, target_ty, crate) for a in v.alts])
        if isinstance(v, Agg) and td.kind == 'enum' and v.variant is not None:
            if v.ty == td.name and td.variant_index(v.vname) == v.variant:
                return v
            vi = td.variant_index(v.vname)
            if vi is None:
                return Agg('JsonErr', ())
            src = None
            for d in I.types.byname.get(v.ty, []):
                if d.kind == 'enum' and d.variant_index(v.vname) == v.variant:
                    src = d
                    break
            tv = td.variants[vi]
            fields = v.fields
            if src is not None and tv[1] == 'struct':
                sv = src.variants[v.variant]
                byname = {f[0]: x for f, x in zip(sv[2], v.fields)}
                fields = []
                for fname, fty in tv[2]:
                    if fname in byname:
                        fields.append(byname[fname])
                    elif base_name(fty) == 'Option':
                        fields.append(NONE)
                    else:
                        return Agg('JsonErr', ())
            return Agg(td.name, fields, vi, v.vname, td=td)
        return v

    def drain(self, st, it):
        """generator of (st, list of items) consuming an iterable value."""
        I = self.I
        it = I.val(st, it) if isinstance(it, Ref) and not isinstance(I.val(st, it), (VecV,)) else it
        if isinstance(it, Ref):
            v = I.val(st, it)
            yield st, [Ref(it.cell, it.path + (('i', i),)) for i in range(len(v.items))]
            return
        if isinstance(it, VecV):
            yield st, list(it.items)
            return
        if isinstance(it, Agg) and it.ty == '[]':
            yield st, list(it.fields)
            return
        if not isinstance(it, Iter):
            raise Gap('drain of %r' % (it,))

        def rec(st, it, acc):
            for st2, it2, item in self.iter_next(st, it):
                if isinstance(item, Panic):
                    yield st2, item
                elif item is None:
                    yield st2, acc
                else:
                    yield from rec(st2, it2, acc + [item])
        yield from rec(st, it, [])

    def iter_next(self, st, it):
        """generator of (st, new iterator, item | None | Panic)."""
        I = self.I
        k = it.kind
        if k == 'slice':
            if it.pos >= it.n:
                yield st, it, None
            else:
                yield st, it.set(pos=it.pos + 1), Ref(it.ref.cell, it.ref.path + (('i', it.pos),))
            return
        if k == 'vec':
            if it.pos >= len(it.items):
                yield st, it, None
            else:
                yield st, it.set(pos=it.pos + 1), it.items[it.pos]
            return
        if k == 'range':
            for st2, t in I.truth(st, it.cur < it.end):
                if t:
                    yield st2, it.set(cur=it.cur + 1), it.cur
                else:
                    yield st2, it, None
            return
        if k == 'enum':
            for st2, in2, item in self.iter_next(st, it.inner):
                if item is None or isinstance(item, Panic):
                    yield st2, it.set(inner=in2), item
                else:
                    yield st2, it.set(inner=in2, n=it.n + 1), Agg('()', (it.n, item))
            return
        if k == 'skip':
            if isinstance(it.left, int):
                if it.left <= 0:
                    for st2, in2, item in self.iter_next(st, it.inner):
                        yield st2, it.set(inner=in2, left=0), item
                    return
                # drop one element, then continue with one less to skip
                for st2, in2, item in self.iter_next(st, it.inner):
                    if item is None or isinstance(item, Panic):
                        yield st2, it.set(inner=in2), item
                    else:
                        yield from self.iter_next(st2, it.set(inner=in2, left=it.left - 1))
                return
            for st2, t in I.truth(st, it.left >= 1):
                if t:
                    for st3, t1 in I.truth(st2, it.left == 1):
                        if not t1:
                            raise Gap('skip(n) with a symbolic n that may exceed 1')
                        yield from self.iter_next(st3, it.set(left=1))
                else:
                    yield from self.iter_next(st2, it.set(left=0))
            return
        if k == 'take':
            if isinstance(it.left, int) and it.left <= 0:
                yield st, it, None
                return
            if not isinstance(it.left, int):
                raise Gap('take(n) with symbolic n')
            for st2, in2, item in self.iter_next(st, it.inner):
                if item is None or isinstance(item, Panic):
                    yield st2, it.set(inner=in2), item
                else:
                    yield st2, it.set(inner=in2, left=it.left - 1), item
            return
        if k == 'map':
            for st2, in2, item in self.iter_next(st, it.inner):
                if item is None or isinstance(item, Panic):
                    yield st2, it.set(inner=in2), item
                else:
                    for st3, r in I.call_callable(st2, it.f, [item]):
                        yield st3, it.set(inner=in2), r
            return
        if k == 'filter':
            def rec(st, inner):
                for st2, in2, item in self.iter_next(st, inner):
                    if item is None or isinstance(item, Panic):
                        yield st2, it.set(inner=in2), item
                        continue
                    c = st2.new_cell(item)
                    for st3, b in I.call_callable(st2, it.f, [Ref(c, ())]):
                        for st4, t in I.truth(st3, b):
                            if t:
                                yield st4, it.set(inner=in2), item
                            else:
                                yield from rec(st4, in2)
            yield from rec(st, it.inner)
            return
        raise Gap('iterator kind ' + k)


# ---------------------------------------------------------------------- small z3 helpers
def eqv(a, b):
    if is_sym(a) or is_sym(b):
        if isinstance(a, bool):
            a = z3.BoolVal(a)
        if isinstance(b, bool):
            b = z3.BoolVal(b)
        if z3.is_bool(a) and not z3.is_bool(b):
            b = b != 0
        if z3.is_bool(b) and not z3.is_bool(a):
            a = a != 0
        return a == b
    return a == b


def z3_and(*xs):
    out = []
    for x in xs:
        if x is True:
            continue
        if x is False:
            return False
        out.append(x)
    if not out:
        return True
    return z3.And(*out) if len(out) > 1 else out[0]


def z3_or(*xs):
    out = []
    for x in xs:
        if x is False:
            continue
        if x is True:
            return True
        out.append(x)
    if not out:
        return False
    return z3.Or(*out) if len(out) > 1 else out[0]


def ite(c, a, b):
    if c is True:
        return a
    if c is False:
        return b
    if isinstance(a, bool) and isinstance(b, bool):
        a, b = z3.BoolVal(a), z3.BoolVal(b)
    return z3.If(c, a, b)


def scalar(x):
    return isinstance(x, (int, bool)) or is_sym(x)
