# Environment model: contract storage (typed, keyed by namespace + key terms, with lazy
# initialisation and a write log), querier, and the summaries of the storage / querier APIs.
import re
import z3

from .values import *   # noqa
from .interp import base_name
from .mirparse import split_top
from . import typedefs


class Entry:
    __slots__ = ('fam', 'key', 'val', 'present', 'vty')

    def __init__(self, fam, key, val, present, vty=None):
        self.fam = fam
        self.key = tuple(key)
        self.val = val
        self.present = present
        self.vty = vty

    def replace(self, **kw):
        e = Entry(self.fam, self.key, self.val, self.present, self.vty)
        for k, v in kw.items():
            setattr(e, k, v)
        return e

    def __repr__(self):
        return 'Entry(%r,%r,%r,%r)' % (self.fam, self.key, self.val, self.present)


class Store:
    """storage of one contract instance (persistent data structure: copy on write)."""

    def __init__(self, entries=(), closed=frozenset(), open_default=True):
        self.entries = tuple(entries)
        self.closed = frozenset(closed)
        self.open_default = open_default

    def with_entries(self, entries):
        return Store(entries, self.closed, self.open_default)

    def is_closed(self, fam):
        if fam in self.closed:
            return True
        for c in self.closed:
            if isinstance(c, tuple) and fam[:len(c)] == c:
                return True
        return not self.open_default

    def fam_entries(self, fam):
        return [(i, e) for i, e in enumerate(self.entries) if e.fam == fam]


def lp(b):
    """cosmwasm-storage to_length_prefixed."""
    return bytes([len(b) >> 8, len(b) & 255]) + b


class EnvModel:
    def __init__(self, S):
        self.S = S
        self.I = S.I

    # ------------------------------------------------------------------ key terms
    def term(self, st, v):
        """flatten a key value into a tuple of comparable terms."""
        I = self.I
        v = I.val(st, v)
        if isinstance(v, JsonV):
            return self.term(st, v.v)
        if isinstance(v, StrV):
            if isinstance(v.id, int) and v.id in I.strings_rev:
                return (('b', I.strings_rev[v.id].encode('latin-1')),) if False else (('s', v.id),)
            return (('s', v.id),)
        if isinstance(v, BytesV):
            return (('b', v.b),)
        if isinstance(v, KeyV):
            out = ()
            for p in v.parts:
                if isinstance(p, tuple) and len(p) == 2 and p[0] in ('s', 'n', 'b'):
                    out += (p,)
                else:
                    out += self.term(st, p)
            return out
        if isinstance(v, bool):
            return (('n', int(v)),)
        if isinstance(v, int) or is_sym(v):
            return (('n', v),)
        if isinstance(v, Agg) and v.ty in ('Addr', 'CanonicalAddr'):
            return self.term(st, v.fields[0])
        if isinstance(v, Agg) and v.ty == '()':
            out = ()
            for f in v.fields:
                out += self.term(st, f)
            return out
        if isinstance(v, VecV):
            if all(isinstance(x, int) for x in v.items):
                return (('b', bytes(v.items)),)
        raise Gap('storage key term of %r' % (v,))

    def term_eq(self, a, b):
        if a[0] != b[0]:
            # a literal byte string vs. an interned string id denote different encodings: never equal
            return False
        x, y = a[1], b[1]
        if is_sym(x) or is_sym(y):
            return x == y
        return x == y

    def key_eq(self, k1, k2):
        if len(k1) != len(k2):
            return False
        from .summaries import z3_and
        return z3_and(*[self.term_eq(a, b) for a, b in zip(k1, k2)])

    # ------------------------------------------------------------------ lookup
    def store_of(self, st, contract=None):
        c = contract or st.contract
        s = st.stores.get(c)
        if s is None:
            s = Store()
            st.stores[c] = s
        return s

    def find(self, st, fam, key, vty=None, crate=None, contract=None):
        """generator of (state, index | None): the entry for (fam,key); lazily created in open families."""
        I = self.I
        c = contract or st.contract
        store = self.store_of(st, c)
        cands = [(i, e) for i, e in store.fam_entries(fam)]

        def rec(st, n):
            if n == len(cands):
                store = self.store_of(st, c)
                if store.is_closed(fam):
                    yield st, None
                    return
                if vty is None:
                    raise Gap('lazy initialisation of %r without a value type' % (fam,))
                from .symval import fresh_value
                val = fresh_value(I, st, vty, crate, 'st_%s' % fam_name(fam))
                pres = I.fresh('present_%s' % fam_name(fam), 'bool')
                e = Entry(fam, key, val, pres, vty)
                store = self.store_of(st, c)
                st.stores[c] = store.with_entries(store.entries + (e,))
                st.emit(('lazy', c, fam, key, len(store.entries), e))
                yield st, len(store.entries)
                return
            i, e = cands[n]
            cond = self.key_eq(e.key, key)
            for st2, t in I.truth(st, cond):
                if t:
                    yield st2, i
                else:
                    yield from rec(st2, n + 1)
        yield from rec(st, 0)

    def get(self, st, fam, key, vty=None, crate=None, contract=None):
        """generator of (state, value | None(absent))."""
        I = self.I
        c = contract or st.contract
        for st2, idx in self.find(st, fam, key, vty, crate, c):
            if idx is None:
                yield st2, None
                continue
            e = self.store_of(st2, c).entries[idx]
            for st3, p in I.truth(st2, e.present):
                if p is not e.present:
                    s3 = self.store_of(st3, c)
                    ents = list(s3.entries)
                    ents[idx] = ents[idx].replace(present=p)
                    st3.stores[c] = s3.with_entries(ents)
                yield st3, (e.val if p else None)

    def set(self, st, fam, key, val, contract=None, remove=False, vty=None, crate=None):
        """generator of state after writing (fork on key aliasing).  A write to a key of an *open* family that was never read
        first materialises the unknown previous entry (symbolic value and presence, 'lazy' event) when the value type is
        known: a blind save / remove overwrites whatever was there, it does not create the key from nothing."""
        I = self.I
        c = contract or st.contract
        store = self.store_of(st, c)
        cands = store.fam_entries(fam)

        def rec(st, n):
            if n == len(cands):
                s = self.store_of(st, c)
                if not s.is_closed(fam) and vty is not None:
                    from .symval import fresh_value
                    val0 = fresh_value(I, st, vty, crate, 'st_%s' % fam_name(fam))
                    pres0 = I.fresh('present_%s' % fam_name(fam), 'bool')
                    e0 = Entry(fam, key, val0, pres0, vty)
                    s = self.store_of(st, c)
                    idx = len(s.entries)
                    st.emit(('lazy', c, fam, key, idx, e0))
                    e = e0.replace(val=None if remove else val, present=not remove)
                    st.stores[c] = s.with_entries(s.entries + (e,))
                    st.emit(('write', c, fam, key, e0, e, idx))
                    yield st
                    return
                e = Entry(fam, key, None if remove else val, not remove)
                st.stores[c] = s.with_entries(s.entries + (e,))
                st.emit(('write', c, fam, key, None, None if remove else val, 'unknown-old'))
                yield st
                return
            i, e = cands[n]
            for st2, t in I.truth(st, self.key_eq(e.key, key)):
                if t:
                    s = self.store_of(st2, c)
                    ents = list(s.entries)
                    old = ents[i]
                    ents[i] = old.replace(val=None if remove else val, present=not remove)
                    st2.stores[c] = s.with_entries(ents)
                    st2.emit(('write', c, fam, old.key, old, ents[i], i))
                    yield st2
                else:
                    yield from rec(st2, n + 1)
        yield from rec(st, 0)

    def range(self, st, fam, prefix, contract=None, descending=False, lo=None, hi=None):
        """generator of (state, [(rest_key_terms, value)]) for present entries under a prefix, ascending.
        lo / hi: optional bounds (inclusive / exclusive) on a single numeric rest-key part, compared in storage byte order."""
        I = self.I
        c = contract or st.contract
        store = self.store_of(st, c)
        if not store.is_closed(fam):
            raise Gap('range over open storage family %r (harness must close it)' % (fam,))
        cands = [(i, e) for i, e in store.fam_entries(fam) if len(e.key) >= len(prefix)]

        def rec(st, n, acc):
            if n == len(cands):
                # Bucket keys with a numeric part are serde-JSON decimal strings in this code base (to_vec(&batch_id)):
                # the storage iterates them in byte order of the decimal text ("10" < "9"); Map<u64> keys are big-endian.
                yield from self.sort_entries(st, acc, descending, declex=(fam[0] == 'B'))
                return
            i, e = cands[n]
            from .summaries import z3_and
            cond = z3_and(self.key_eq(e.key[:len(prefix)], prefix), e.present)
            if lo is not None or hi is not None:
                rest = e.key[len(prefix):]
                if len(rest) != 1 or rest[0][0] != 'n':
                    raise Gap('range bounds on a key that is not a single numeric part')
                kv_ = rest[0][1]
                declex = fam[0] == 'B'

                def less(a, b):
                    if not declex:
                        return a < b
                    if isinstance(a, int) and isinstance(b, int):
                        return str(a) < str(b)
                    return dec_lex_less(a, b)
                if lo is not None:
                    c_lo = less(kv_, lo)
                    cond = z3_and(cond, (not c_lo) if isinstance(c_lo, bool) else z3.Not(c_lo))
                if hi is not None:
                    cond = z3_and(cond, less(kv_, hi))
            for st2, t in I.truth(st, cond):
                yield from rec(st2, n + 1, acc + [(e.key[len(prefix):], e.val)] if t else acc)
        yield from rec(st, 0, [])

    def sort_entries(self, st, items, descending=False, declex=False):
        I = self.I

        def num_less(x, y):
            if not declex:
                return x < y
            if isinstance(x, int) and isinstance(y, int):
                return str(x) < str(y)
            return dec_lex_less(x, y)

        def less(st, a, b):
            # lexicographic on terms
            def rec(st, i):
                if i >= len(a) or i >= len(b):
                    yield st, len(a) < len(b)
                    return
                x, y = a[i], b[i]
                if x[0] != y[0]:
                    yield st, x[0] < y[0]
                    return
                if x[0] == 'b':
                    if x[1] == y[1]:
                        yield from rec(st, i + 1)
                    else:
                        yield st, x[1] < y[1]
                    return
                for st2, lt in I.truth(st, num_less(x[1], y[1]) if x[0] == 'n' else x[1] < y[1]):
                    if lt:
                        yield st2, True
                    else:
                        for st3, eq in I.truth(st2, x[1] == y[1]):
                            if eq:
                                yield from rec(st3, i + 1)
                            else:
                                yield st3, False
            yield from rec(st, 0)

        def insert(st, done, x, pos):
            if pos == 0:
                yield st, [x] + done
                return
            for st2, lt in less(st, x[0], done[pos - 1][0]):
                if lt:
                    for st3, r in insert(st2, done[:pos - 1], x, pos - 1):
                        yield st3, r + done[pos - 1:]
                else:
                    yield st2, done[:pos] + [x] + done[pos:]

        def rec(st, done, rest):
            if not rest:
                yield st, (list(reversed(done)) if descending else done)
                return
            for st2, d2 in insert(st, done, rest[0], len(done)):
                yield from rec(st2, d2, rest[1:])
        yield from rec(st, [], items)


def dec_scaled(x):
    """(x left-aligned to 20 decimal digits, number of digits) for 0 <= x < 2^64"""
    if isinstance(x, int):
        d = len(str(x))
        return x * 10 ** (20 - d), d
    sc, dg = x * 1, z3.IntVal(20)
    for d in range(19, 0, -1):
        sc = z3.If(x < 10 ** d, x * 10 ** (20 - d), sc)
        dg = z3.If(x < 10 ** d, z3.IntVal(d), dg)
    return sc, dg


def dec_lex_less(x, y):
    """byte order of the decimal texts of two u64 values"""
    sx, dx = dec_scaled(x)
    sy, dy = dec_scaled(y)
    return z3.Or(sx < sy, z3.And(sx == sy, dx < dy))


def fam_name(fam):
    out = []
    for p in fam:
        if isinstance(p, bytes):
            out.append(re.sub(r'[^A-Za-z0-9_]', '', p.decode('latin-1')))
        else:
            out.append(str(p))
    return '_'.join(out)


# ---------------------------------------------------------------------- querier
class Querier:
    """base querier: every query is a Gap unless a harness overrides it."""

    def bank_balance(self, I, st, addr, denom):
        raise Gap('querier: bank balance not modelled by harness')

    def all_balances(self, I, st, addr):
        raise Gap('querier: all balances not modelled by harness')

    def all_delegations(self, I, st, delegator):
        raise Gap('querier: delegations not modelled by harness')

    def delegation(self, I, st, delegator, validator):
        raise Gap('querier: delegation not modelled by harness')

    def smart(self, I, st, addr, msg, target_ty, crate):
        raise Gap('querier: smart query not modelled by harness')

    def all_validators(self, I, st):
        raise Gap('querier: the chain\'s validator set is not modelled by harness')


def install(S):
    I = S.I
    E = EnvModel(S)
    S.env = E
    A = S.add

    def item_fam(st, item):
        item = I.val(st, item)
        ns = item.fields[0]
        if not isinstance(ns.id, int) or ns.id not in I.strings_rev:
            raise Gap('storage namespace is not a literal')
        return ('K', I.strings_rev[ns.id].encode('latin-1'))

    def callee_tys(callee, head):
        m = re.search(head + r'::<(.*?)>::\w+', callee)
        if not m:
            return []
        # take the balanced generic group right after head
        i = callee.index(head + '::<') + len(head) + 2
        from .mirparse import skip_balanced
        e = skip_balanced(callee, i)
        return [t for t in split_top(callee[i + 1:e - 1]) if not t.startswith("'")]

    def not_found(ty):
        return err(stderr(I.S('not found: ' + str(ty))))

    # ---------------- Item
    A('Item::new', r'(^|::)Item::new$', lambda st, fn, callee, args, dty: iter([(st, Agg('Item', (S.to_str(st, args[0]),)))]))

    def h_item_load(st, fn, callee, args, dty):
        tys = callee_tys(callee, 'Item')
        vty = tys[0] if tys else None
        k = callee.rsplit('::', 1)[-1]
        for st2, v in E.get(st, item_fam(st, args[0]), (), vty, fn.crate):
            if k == 'load':
                yield st2, (ok(v) if v is not None else not_found(vty))
            else:
                yield st2, ok(some(v) if v is not None else NONE)
    A('Item::load', r'(^|::)Item::(load|may_load)$', h_item_load)

    def h_item_save(st, fn, callee, args, dty):
        for st2 in E.set(st, item_fam(st, args[0]), (), I.val(st, args[2])):
            yield st2, ok(UNIT)
    A('Item::save', r'(^|::)Item::save$', h_item_save)

    def h_item_remove(st, fn, callee, args, dty):
        for st2 in E.set(st, item_fam(st, args[0]), (), None, remove=True):
            yield st2, UNIT
    A('Item::remove', r'(^|::)Item::remove$', h_item_remove)

    def h_item_update(st, fn, callee, args, dty):
        tys = callee_tys(callee, 'Item')
        vty = tys[0] if tys else None
        fam = item_fam(st, args[0])
        for st2, v in E.get(st, fam, (), vty, fn.crate):
            if v is None:
                yield st2, not_found(vty)
                continue
            for st3, r in I.call_callable(st2, args[2], [v]):
                if isinstance(r, Panic):
                    yield st3, r
                    continue
                for st4, rc in S.conc(st3, r):
                    if rc.variant == 1:
                        yield st4, rc
                    else:
                        for st5 in E.set(st4, fam, (), rc.fields[0]):
                            yield st5, ok(rc.fields[0])
    A('Item::update', r'(^|::)Item::update$', h_item_update)

    # ---------------- Map (cw-storage-plus)
    A('Map::new', r'(^|::)Map::new$', lambda st, fn, callee, args, dty: iter([(st, Agg('Map', (S.to_str(st, args[0]),)))]))

    def map_fam(st, m):
        m = I.val(st, m)
        ns = m.fields[0]
        if not isinstance(ns.id, int) or ns.id not in I.strings_rev:
            raise Gap('map namespace is not a literal')
        return ('M', I.strings_rev[ns.id].encode('latin-1'))

    def h_map_load(st, fn, callee, args, dty):
        tys = callee_tys(callee, 'Map')
        vty = tys[1] if len(tys) > 1 else None
        k = callee.rsplit('::', 1)[-1]
        key = E.term(st, args[2])
        for st2, v in E.get(st, map_fam(st, args[0]), key, vty, fn.crate):
            if k == 'load':
                yield st2, (ok(v) if v is not None else not_found(vty))
            elif k == 'has':
                yield st2, v is not None
            else:
                yield st2, ok(some(v) if v is not None else NONE)
    A('Map::load', r'(^|::)Map::(load|may_load|has)$', h_map_load)

    def h_map_save(st, fn, callee, args, dty):
        key = E.term(st, args[2])
        tys = callee_tys(callee, 'Map')
        vty = tys[1] if len(tys) > 1 else None
        for st2 in E.set(st, map_fam(st, args[0]), key, I.val(st, args[3]), vty=vty, crate=fn.crate):
            yield st2, ok(UNIT)
    A('Map::save', r'(^|::)Map::save$', h_map_save)

    def h_map_remove(st, fn, callee, args, dty):
        key = E.term(st, args[2])
        tys = callee_tys(callee, 'Map')
        vty = tys[1] if len(tys) > 1 else None
        for st2 in E.set(st, map_fam(st, args[0]), key, None, remove=True, vty=vty, crate=fn.crate):
            yield st2, UNIT
    A('Map::remove', r'(^|::)Map::remove$', h_map_remove)

    def h_map_update(st, fn, callee, args, dty):
        tys = callee_tys(callee, 'Map')
        vty = tys[1] if len(tys) > 1 else None
        fam = map_fam(st, args[0])
        key = E.term(st, args[2])
        for st2, v in E.get(st, fam, key, vty, fn.crate):
            for st3, r in I.call_callable(st2, args[3], [some(v) if v is not None else NONE]):
                if isinstance(r, Panic):
                    yield st3, r
                    continue
                for st4, rc in S.conc(st3, r):
                    if rc.variant == 1:
                        yield st4, rc
                    else:
                        for st5 in E.set(st4, fam, key, rc.fields[0]):
                            yield st5, ok(rc.fields[0])
    A('Map::update', r'(^|::)Map::update$', h_map_update)

    def h_map_range(st, fn, callee, args, dty):
        # Map::range(storage, min, max, order) / Map::keys(...)
        tys = callee_tys(callee, 'Map')
        import re as _re
        _m = _re.search(r'::(range|keys)(?:::<[^:]*>)?$', callee.strip())
        k = _m.group(1) if _m else callee.rsplit('::', 1)[-1].split('::<')[0]
        fam = map_fam(st, args[0])
        for st2, lo in S.conc(st, args[2]):
            for st3, hi in S.conc(st2, args[3]):
                if lo.variant != 0 or hi.variant != 0:
                    lo_t = E.term(st3, lo.fields[0].fields[0]) if lo.variant == 1 else None
                else:
                    lo_t = None
                if hi.variant != 0:
                    raise Gap('Map::range with upper bound')
                order = I.val(st3, args[4])
                desc = isinstance(order, Agg) and order.vname == 'Descending'
                for st4, items in E.range(st3, fam, (), descending=desc):
                    out = []

                    def emit(st, items, i, acc):
                        if i == len(items):
                            yield st, acc
                            return
                        key, val = items[i]
                        if lo_t is not None:
                            excl = lo.fields[0].vname in ('Exclusive', 'ExclusiveRaw')
                            c = (key[0][1] > lo_t[0][1]) if excl else (key[0][1] >= lo_t[0][1])
                            for st2, t in I.truth(st, c):
                                yield from emit(st2, items, i + 1, acc + [(key, val)] if t else acc)
                        else:
                            yield from emit(st, items, i + 1, acc + [(key, val)])
                    for st5, sel in emit(st4, items, 0, []):
                        res = []
                        for key, val in sel:
                            kv = key_value(key, tys[0] if tys else None)
                            if k == 'keys':
                                res.append(ok(kv))
                            else:
                                res.append(ok(Agg('()', (kv, val))))
                        yield st5, Iter('vec', items=tuple(res), pos=0)
    A('Map::range', r'(^|::)Map::(range|keys)$', h_map_range)

    def key_value(key, kty):
        """rebuild a Rust key value from key terms (used by range results)."""
        vals = []
        for t in key:
            if t[0] == 's':
                vals.append(StrV(t[1]))
            elif t[0] == 'n':
                vals.append(t[1])
            else:
                vals.append(BytesV(t[1]))
        b = base_name(kty) if kty else None
        if kty and 'Addr' in kty and len(vals) == 1:
            return Agg('Addr', (vals[0],))
        if kty and kty.strip().startswith('(') and len(vals) > 1:
            return Agg('()', [Agg('Addr', (v,)) if isinstance(v, StrV) and 'Addr' in kty else v for v in vals])
        if len(vals) == 1:
            if isinstance(vals[0], StrV):
                return KeyV((vals[0],))
            return vals[0]
        return KeyV(key)

    # ---------------- cosmwasm-storage: Singleton / Bucket / PrefixedStorage
    def ns_bytes(st, v):
        v = I.val(st, v)
        if isinstance(v, BytesV):
            return v.b
        if isinstance(v, StrV) and isinstance(v.id, int) and v.id in I.strings_rev:
            return I.strings_rev[v.id].encode('latin-1')
        raise Gap('namespace bytes of %r' % (v,))

    A('Singleton::new', r'(Readonly)?Singleton::new$|^(cosmwasm_storage::)?singleton(_read)?$',
      lambda st, fn, callee, args, dty: iter([(st, Agg('Singleton', (('K', lp(ns_bytes(st, args[1]))),)))]))

    def h_singleton_load(st, fn, callee, args, dty):
        tys = callee_tys(callee, 'Singleton') or callee_tys(callee, 'ReadonlySingleton')
        vty = tys[0] if tys else None
        s = I.val(st, args[0])
        k = callee.rsplit('::', 1)[-1]
        for st2, v in E.get(st, s.fields[0], (), vty, fn.crate):
            if k == 'load':
                yield st2, (ok(v) if v is not None else not_found(vty))
            else:
                yield st2, ok(some(v) if v is not None else NONE)
    A('Singleton::load', r'(Readonly)?Singleton::(load|may_load)$', h_singleton_load)

    def h_singleton_save(st, fn, callee, args, dty):
        s = I.val(st, args[0])
        for st2 in E.set(st, s.fields[0], (), I.val(st, args[1])):
            yield st2, ok(UNIT)
    A('Singleton::save', r'Singleton::save$', h_singleton_save)

    def h_bucket_new(st, fn, callee, args, dty):
        nss = I.val(st, args[1])
        items = nss.items if isinstance(nss, VecV) else (nss.fields if isinstance(nss, Agg) else None)
        if callee.rstrip(')').endswith('::new') or re.search(r'bucket(_read)?$', callee):
            items = [nss]
        first = ns_bytes(st, items[0])
        rest = ()
        for x in items[1:]:
            rest += E.term(st, x)
        yield st, Agg('Bucket', (('B', first), rest))
    A('Bucket::multilevel', r'(Readonly)?Bucket::(multilevel|new)$|^(cosmwasm_storage::)?bucket(_read)?$', h_bucket_new)

    def bucket_tys(callee):
        return callee_tys(callee, 'ReadonlyBucket') or callee_tys(callee, 'Bucket')

    def h_bucket_load(st, fn, callee, args, dty):
        tys = bucket_tys(callee)
        vty = tys[0] if tys else None
        b = I.val(st, args[0])
        key = b.fields[1] + E.term(st, args[1])
        k = callee.rsplit('::', 1)[-1]
        for st2, v in E.get(st, b.fields[0], key, vty, fn.crate):
            if k == 'load':
                yield st2, (ok(v) if v is not None else not_found(vty))
            else:
                yield st2, ok(some(v) if v is not None else NONE)
    A('Bucket::load', r'(Readonly)?Bucket::(load|may_load)$', h_bucket_load)

    def h_bucket_save(st, fn, callee, args, dty):
        b = I.val(st, args[0])
        key = b.fields[1] + E.term(st, args[1])
        tys = bucket_tys(callee)
        for st2 in E.set(st, b.fields[0], key, I.val(st, args[2]), vty=(tys[0] if tys else None), crate=fn.crate):
            yield st2, ok(UNIT)
    A('Bucket::save', r'Bucket::save$', h_bucket_save)

    def h_bucket_remove(st, fn, callee, args, dty):
        b = I.val(st, args[0])
        key = b.fields[1] + E.term(st, args[1])
        tys = bucket_tys(callee)
        for st2 in E.set(st, b.fields[0], key, None, remove=True, vty=(tys[0] if tys else None), crate=fn.crate):
            yield st2, UNIT
    A('Bucket::remove', r'Bucket::remove$', h_bucket_remove)

    def h_bucket_update(st, fn, callee, args, dty):
        tys = bucket_tys(callee)
        vty = tys[0] if tys else None
        b = I.val(st, args[0])
        fam = b.fields[0]
        key = b.fields[1] + E.term(st, args[1])
        for st2, v in E.get(st, fam, key, vty, fn.crate):
            for st3, r in I.call_callable(st2, args[2], [some(v) if v is not None else NONE]):
                if isinstance(r, Panic):
                    yield st3, r
                    continue
                for st4, rc in S.conc(st3, r):
                    if rc.variant == 1:
                        yield st4, rc
                    else:
                        for st5 in E.set(st4, fam, key, rc.fields[0]):
                            yield st5, ok(rc.fields[0])
    A('Bucket::update', r'Bucket::update$', h_bucket_update)

    def h_bucket_range(st, fn, callee, args, dty):
        b = I.val(st, args[0])
        for st2, lo in S.conc(st, args[1]):
            for st3, hi in S.conc(st2, args[2]):
                def bound(o):
                    if o.variant == 0:
                        return None
                    v_ = I.val(st3, o.fields[0])
                    while isinstance(v_, Ref):
                        v_ = I.val(st3, v_)
                    if isinstance(v_, JsonV) and (isinstance(v_.v, int) or is_sym(v_.v)):
                        return v_.v
                    raise Gap('Bucket::range bound that is not the JSON text of an integer: %r' % (v_,))
                lo_, hi_ = bound(lo), bound(hi)
                order = I.val(st3, args[3])
                desc = isinstance(order, Agg) and order.vname == 'Descending'
                for st4, items in E.range(st3, b.fields[0], b.fields[1], descending=desc, lo=lo_, hi=hi_):
                    def kv(key):
                        # bucket keys of this code base are JSON encodings of a u64 / string when they have one part
                        if len(key) == 1 and key[0][0] == 'n':
                            return JsonV(key[0][1])
                        if len(key) == 1 and key[0][0] == 's':
                            return JsonV(StrV(key[0][1]))
                        return KeyV(key)
                    res = [ok(Agg('()', (kv(key), val))) for key, val in items]
                    yield st4, Iter('vec', items=tuple(res), pos=0)
    A('Bucket::range', r'(Readonly)?Bucket::range$', h_bucket_range)

    A('PrefixedStorage::new', r'(Readonly)?PrefixedStorage::(new|multilevel)$',
      lambda st, fn, callee, args, dty: iter([(st, Agg('PrefixedStorage', (('P', ns_bytes(st, args[1])),)))]))

    def h_ps_get(st, fn, callee, args, dty):
        p = I.val(st, args[0])
        key = E.term(st, args[1])
        for st2, v in E.get(st, p.fields[0], key, None, fn.crate):
            yield st2, (some(JsonV(v)) if v is not None else NONE)
    A('PrefixedStorage::get', r'<(Readonly)?PrefixedStorage as Storage>::get$', h_ps_get)

    def h_ps_set(st, fn, callee, args, dty):
        p = I.val(st, args[0])
        key = E.term(st, args[1])
        v = I.val(st, args[2])
        if isinstance(v, JsonV):
            v = v.v
        for st2 in E.set(st, p.fields[0], key, v):
            yield st2, UNIT
    A('PrefixedStorage::set', r'<PrefixedStorage as Storage>::set$', h_ps_set)

    def h_ps_remove(st, fn, callee, args, dty):
        p = I.val(st, args[0])
        key = E.term(st, args[1])
        for st2 in E.set(st, p.fields[0], key, None, remove=True):
            yield st2, UNIT
    A('PrefixedStorage::remove', r'<PrefixedStorage as Storage>::remove$', h_ps_remove)

    def h_ps_range(st, fn, callee, args, dty):
        p = I.val(st, args[0])
        for st2, lo in S.conc(st, args[1]):
            for st3, hi in S.conc(st2, args[2]):
                if hi.variant != 0:
                    raise Gap('PrefixedStorage::range with upper bound')
                order = I.val(st3, args[3])
                desc = isinstance(order, Agg) and order.vname == 'Descending'
                lo_ = None
                if lo.variant == 1:
                    # inclusive lower bound on 8-byte big-endian keys: be(n) keeps ids >= n; be(n) followed by further bytes
                    # (the exclusive-cursor idiom be(n) ++ [1]) keeps ids > n
                    lv = I.val(st3, lo.fields[0])
                    while isinstance(lv, Ref):
                        lv = I.val(st3, lv)
                    if not isinstance(lv, KeyV) or not lv.parts:
                        raise Gap('PrefixedStorage::range lower bound %r' % (lv,))
                    head = lv.parts[0]
                    n_ = head[1] if isinstance(head, tuple) and len(head) == 2 and head[0] == 'n' else head
                    if isinstance(n_, tuple) or isinstance(n_, (bytes, str)):
                        raise Gap('PrefixedStorage::range lower bound %r' % (lv,))
                    extra = lv.parts[1:]
                    if any(not (isinstance(x, tuple) and x[0] == 'b') for x in extra):
                        raise Gap('PrefixedStorage::range lower bound %r' % (lv,))
                    strict = any(len(x[1]) > 0 for x in extra)
                    lo_ = n_ + 1 if strict else n_
                for st4, items in E.range(st3, p.fields[0], (), descending=desc, lo=lo_):
                    res = [Agg('()', (KeyV(key), JsonV(val))) for key, val in items]
                    yield st4, Iter('vec', items=tuple(res), pos=0)
    A('PrefixedStorage::range', r'<(Readonly)?PrefixedStorage as Storage>::range$', h_ps_range)

    # ---------------- querier
    def q(st):
        if st.querier is None:
            raise Gap('no querier configured')
        return st.querier

    def h_query_balance(st, fn, callee, args, dty):
        addr = S.to_str(st, args[1])
        denom = S.to_str(st, args[2])
        st.emit(('query', 'bank_balance', addr, denom))
        for st2, amt in q(st).bank_balance(I, st, addr, denom):
            yield st2, ok(Agg('Coin', (denom, U128(amt))))
    A('query_balance', r'QuerierWrapper::query_balance$', h_query_balance)

    def h_query_all_balances(st, fn, callee, args, dty):
        addr = S.to_str(st, args[1])
        st.emit(('query', 'bank_all_balances', addr))
        for st2, coins in q(st).all_balances(I, st, addr):
            yield st2, ok(VecV(coins))
    A('query_all_balances', r'QuerierWrapper::query_all_balances$', h_query_all_balances)

    def h_query_all_delegations(st, fn, callee, args, dty):
        d = S.to_str(st, args[1])
        st.emit(('query', 'all_delegations', d))
        for st2, dels in q(st).all_delegations(I, st, d):
            yield st2, ok(VecV(dels))
    A('query_all_delegations', r'QuerierWrapper::query_all_delegations$', h_query_all_delegations)

    def h_query_delegation(st, fn, callee, args, dty):
        d = S.to_str(st, args[1])
        v = S.to_str(st, args[2])
        st.emit(('query', 'delegation', d, v))
        for st2, r in q(st).delegation(I, st, d, v):
            yield st2, ok(r)
    A('query_delegation', r'QuerierWrapper::query_delegation$', h_query_delegation)

    def h_query_wasm_smart(st, fn, callee, args, dty):
        # QuerierWrapper::query_wasm_smart::<T, impl Into<String>, M>(contract_addr, &msg)
        m = re.search(r'::query_wasm_smart::<(.*)>$', callee)
        tty = None
        if m:
            from .mirparse import split_top
            tty = split_top(m.group(1))[0].strip()
        addr = S.to_str(st, args[1])
        msg = I.val(st, args[2])
        msg = msg.v if isinstance(msg, JsonV) else msg
        st.emit(('query', 'smart', addr, msg))
        for st2, r in q(st).smart(I, st, addr, msg, tty, fn.crate):
            yield st2, r
    A('query_wasm_smart', r'QuerierWrapper::query_wasm_smart$', h_query_wasm_smart)

    def h_query_all_validators(st, fn, callee, args, dty):
        st.emit(('query', 'all_validators'))
        for st2, vals in q(st).all_validators(I, st):
            yield st2, ok(VecV(tuple(vals)))
    A('query_all_validators', r'QuerierWrapper::query_all_validators$', h_query_all_validators)

    def h_query(st, fn, callee, args, dty):
        req = I.val(st, args[1])
        m = re.search(r'::query::<(.*)>$', callee)
        tty = m.group(1) if m else None
        if req.ty == 'QueryRequest' and req.vname == 'Wasm':
            w = req.fields[0]
            if w.vname == 'Smart':
                addr = S.to_str(st, w.fields[0])
                msg = I.val(st, w.fields[1])
                msg = msg.v if isinstance(msg, JsonV) else msg
                st.emit(('query', 'smart', addr, msg))
                for st2, r in q(st).smart(I, st, addr, msg, tty, fn.crate):
                    yield st2, r
                return
        raise Gap('query request %r' % (req,))
    A('QuerierWrapper::query', r'QuerierWrapper::query$', h_query)
    A('QuerierWrapper::new', r'QuerierWrapper::new$', lambda st, fn, callee, args, dty: iter([(st, Agg('QuerierWrapper', (args[0],)))]))
