# Parser for rustc `-Zunpretty=mir` text.  Produces Fn objects whose statements and
# terminators are pre-parsed tuples interpreted by smir/interp.py.
import re

OPEN = '([{<'
CLOSE = ')]}>'


class ParseError(Exception):
    pass


class Fn:
    __slots__ = ('name', 'crate', 'kind', 'params', 'ret', 'locals', 'blocks', 'nargs', 'promoted',
                 'sig', 'file', 'lineno', 'nblocks')

    def __init__(self, name, crate, kind):
        self.name = name
        self.crate = crate
        self.kind = kind          # 'fn' | 'const' | 'static' | 'promoted'
        self.params = []          # list of (local, type)
        self.ret = None
        self.locals = {}          # local -> type string
        self.blocks = {}          # bb -> (stmts list, terminator)
        self.nargs = 0
        self.promoted = {}        # idx -> Fn
        self.sig = ''
        self.lineno = 0

    def __repr__(self):
        return '<Fn %s::%s>' % (self.crate, self.name)


def skip_balanced(s, i):
    """s[i] is an opening bracket; return index just past its matching close."""
    depth = 0
    n = len(s)
    instr = False
    while i < n:
        c = s[i]
        if instr:
            if c == '\\':
                i += 1
            elif c == '"':
                instr = False
        elif c == '"':
            instr = True
        elif c in OPEN:
            depth += 1
        elif c in CLOSE:
            if c == '>' and i > 0 and s[i - 1] in '-=':
                pass
            else:
                depth -= 1
                if depth == 0:
                    return i + 1
        i += 1
    raise ParseError('unbalanced: ' + s)


def split_top(s, sep=','):
    out = []
    depth = 0
    cur = []
    i = 0
    n = len(s)
    instr = False
    while i < n:
        c = s[i]
        if instr:
            cur.append(c)
            if c == '\\':
                cur.append(s[i + 1])
                i += 1
            elif c == '"':
                instr = False
        elif c == '"':
            instr = True
            cur.append(c)
        elif c in OPEN:
            depth += 1
            cur.append(c)
        elif c in CLOSE:
            if not (c == '>' and i > 0 and s[i - 1] in '-='):
                depth -= 1
            cur.append(c)
        elif c == sep and depth == 0:
            out.append(''.join(cur).strip())
            cur = []
        else:
            cur.append(c)
        i += 1
    t = ''.join(cur).strip()
    if t:
        out.append(t)
    return out


def type_end(s, i):
    """scan a type starting at s[i] until an unbalanced ')' (not consumed)."""
    depth = 0
    n = len(s)
    while i < n:
        c = s[i]
        if c in OPEN:
            depth += 1
        elif c in CLOSE:
            if c == '>' and s[i - 1] in '-=':
                pass
            elif depth == 0:
                return i
            else:
                depth -= 1
        i += 1
    return i


# ------------------------------------------------------------------ places
def parse_place(s, i=0):
    n = len(s)
    if s[i] == '_':
        j = i + 1
        while j < n and s[j].isdigit():
            j += 1
        p = ('local', int(s[i + 1:j]))
        i = j
    elif s[i] == '(':
        if s[i + 1] == '*':
            inner, j = parse_place(s, i + 2)
            if s[j] != ')':
                raise ParseError('deref place: ' + s[i:])
            p = ('deref', inner)
            i = j + 1
        else:
            inner, j = parse_place(s, i + 1)
            if s.startswith(' as ', j):
                k = type_end(s, j + 4)
                p = ('downcast', inner, s[j + 4:k])
                i = k + 1
            elif s[j] == '.':
                k = j + 1
                while s[k].isdigit():
                    k += 1
                fld = int(s[j + 1:k])
                if s[k] != ':':
                    raise ParseError('field place: ' + s[i:])
                e = type_end(s, k + 1)
                p = ('field', inner, fld, s[k + 2:e])
                i = e + 1
            else:
                raise ParseError('place: ' + s[i:])
    else:
        raise ParseError('place: ' + s[i:])
    while i < n and s[i] == '[':
        k = s.index(']', i)
        idx = s[i + 1:k]
        if idx.startswith('_'):
            p = ('index', p, int(idx[1:]))
        elif ' of ' in idx:
            a = idx.split(' of ')[0]
            if a.startswith('-'):
                p = ('cindex_end', p, int(a[1:]))
            else:
                p = ('cindex', p, int(a))
        elif ':' in idx or '..' in idx:
            m = re.match(r'(\d+)(?::|\.\.)(-?)(\d*)$', idx)
            if not m:
                raise ParseError('subslice: ' + idx)
            p = ('subslice', p, int(m.group(1)), m.group(2) == '-', int(m.group(3) or 0))
        else:
            raise ParseError('index: ' + idx)
        i = k + 1
    return p, i


# ------------------------------------------------------------------ operands
INT_RE = re.compile(r'(-?\d+)_(u8|u16|u32|u64|u128|usize|i8|i16|i32|i64|i128|isize)$')
STR_ESC = {'n': '\n', 't': '\t', 'r': '\r', '0': '\0', '\\': '\\', '"': '"', "'": "'"}


def unescape(body):
    out = []
    i = 0
    n = len(body)
    while i < n:
        c = body[i]
        if c == '\\':
            d = body[i + 1]
            if d == 'u':
                k = body.index('}', i)
                out.append(chr(int(body[i + 3:k], 16)))
                i = k + 1
                continue
            if d == 'x':
                out.append(chr(int(body[i + 2:i + 4], 16)))
                i += 4
                continue
            if d == '\n':
                i += 2
                continue
            out.append(STR_ESC.get(d, d))
            i += 2
            continue
        out.append(c)
        i += 1
    return ''.join(out)


def parse_const(s):
    s = s.strip()
    m = INT_RE.match(s)
    if m:
        return ('int', int(m.group(1)), m.group(2))
    if s == 'true':
        return ('bool', True)
    if s == 'false':
        return ('bool', False)
    if s == '()':
        return ('unit',)
    if s.startswith('"'):
        return ('str', unescape(s[1:-1]))
    if s.startswith('b"'):
        return ('bytes', unescape(s[2:-1]).encode('latin-1'))
    if s.startswith("'"):
        return ('char', unescape(s[1:-1]))
    if s.startswith('ZeroSized: '):
        return ('zst', s[len('ZeroSized: '):])
    m = re.match(r'\{(alloc\d+)(?:\+0x[0-9a-f]+)?: (.*)\}$', s)
    if m:
        return ('alloc', m.group(1), m.group(2))
    m = re.search(r'promoted\[(\d+)\]$', s)
    if m:
        return ('promoted', int(m.group(1)))
    return ('named', s)


def parse_operand(s):
    s = s.strip()
    if s.startswith('no_retag '):
        s = s[9:]
    if s.startswith('copy '):
        p, e = parse_place(s, 5)
        if e != len(s):
            raise ParseError('operand trailing: ' + s)
        return ('place', p)
    if s.startswith('move '):
        p, e = parse_place(s, 5)
        if e != len(s):
            raise ParseError('operand trailing: ' + s)
        return ('place', p)
    if s.startswith('const '):
        return ('const', parse_const(s[6:]))
    if re.match(r'^[<A-Za-z_]', s) and not s.startswith(('copy', 'move')):
        return ('const', ('fnitem', s))
    raise ParseError('operand: ' + s)


BINOPS = {'Add', 'Sub', 'Mul', 'Div', 'Rem', 'BitXor', 'BitAnd', 'BitOr', 'Shl', 'Shr', 'Eq', 'Lt', 'Le', 'Ne',
          'Ge', 'Gt', 'Cmp', 'Offset', 'AddWithOverflow', 'SubWithOverflow', 'MulWithOverflow', 'AddUnchecked',
          'SubUnchecked', 'MulUnchecked', 'ShlUnchecked', 'ShrUnchecked'}
UNOPS = {'Not', 'Neg', 'PtrMetadata'}
CAST_RE = re.compile(r'^(.*) as (.+?) \((IntToInt|PointerCoercion\(.*\)|Transmute|PtrToPtr|FnPtrToPtr|'
                     r'PointerExposeProvenance|PointerWithExposedProvenance|IntToFloat|FloatToInt|FloatToFloat)\)$')


def _operand_type(op, fn):
    if op[0] == 'place' and op[1][0] == 'local':
        return fn.locals.get(op[1][1])
    if op[0] == 'place' and op[1][0] == 'field':
        return op[1][3]
    if op[0] == 'const' and op[1][0] == 'int':
        return op[1][2]
    return None


def parse_rvalue(rv, fn):
    rv = rv.strip()
    if rv.startswith('no_retag '):
        rv = rv[9:]
    m = CAST_RE.match(rv)
    if m and rv.startswith(('copy ', 'move ', 'const ')):
        return ('cast', parse_operand(m.group(1)), m.group(2), m.group(3))
    if rv.startswith(('copy ', 'move ', 'const ')):
        return ('use', parse_operand(rv))
    if rv.startswith('&'):
        m = re.match(r'&(mut |raw const |raw mut |fake shallow |fake |)(.*)$', rv)
        p, e = parse_place(m.group(2))
        if e != len(m.group(2)):
            raise ParseError('ref trailing: ' + rv)
        return ('ref', p, m.group(1).strip())
    m = re.match(r'(\w+)\((.*)\)$', rv)
    if m:
        op = m.group(1)
        if op in BINOPS:
            a, b = split_top(m.group(2))
            oa, ob = parse_operand(a), parse_operand(b)
            ty = _operand_type(oa, fn) or _operand_type(ob, fn)
            return ('binop', op, oa, ob, ty)
        if op in UNOPS:
            oa = parse_operand(m.group(2))
            return ('unop', op, oa, _operand_type(oa, fn))
        if op == 'discriminant':
            return ('discr', parse_place(m.group(2))[0])
        if op == 'Len':
            return ('len', parse_place(m.group(2))[0])
        if op == 'CopyForDeref':
            return ('use', ('place', parse_place(m.group(2))[0]))
        if op == 'ShallowInitBox':
            a = split_top(m.group(2))
            return ('use', parse_operand(a[0]))
    # aggregates
    if rv.startswith('(') and rv.endswith(')') and skip_balanced(rv, 0) == len(rv):
        inner = rv[1:-1].strip()
        if inner.endswith(','):
            inner = inner[:-1]
        return ('tuple', [parse_operand(x) for x in split_top(inner)])
    if rv.startswith('[') and rv.endswith(']') and skip_balanced(rv, 0) == len(rv):
        inner = rv[1:-1]
        parts = split_top(inner, ';')
        if len(parts) == 2:
            return ('repeat', parse_operand(parts[0]), parts[1].strip())
        return ('array', [parse_operand(x) for x in split_top(inner)])
    # closure / coroutine aggregate  {closure@...} { cap: op, .. }   or {closure@..}
    if rv.startswith('{closure@') or rv.startswith('{coroutine@'):
        e = skip_balanced(rv, 0)
        ty = rv[:e]
        rest = rv[e:].strip()
        ops = []
        if rest:
            if not (rest.startswith('{') and rest.endswith('}')):
                raise ParseError('closure agg: ' + rv)
            for part in split_top(rest[1:-1]):
                k = part.index(': ')
                ops.append(parse_operand(part[k + 2:]))
        return ('closure', ty, ops)
    # struct / enum aggregates
    if rv.endswith('}'):
        # Name { f: op, ... }
        i = len(rv) - 1
        depth = 0
        while i >= 0:
            c = rv[i]
            if c in CLOSE and not (c == '>' and rv[i - 1] in '-='):
                depth += 1
            elif c in OPEN:
                depth -= 1
                if depth == 0:
                    break
            i -= 1
        name = rv[:i].strip()
        body = rv[i + 1:-1].strip()
        ops = []
        names = []
        for part in split_top(body):
            k = part.index(': ')
            names.append(part[:k].strip())
            ops.append(parse_operand(part[k + 2:]))
        return ('adt', name, ops, names)
    if rv.endswith(')'):
        # Name(ops) or Name::<T>::Variant(ops)
        i = len(rv) - 1
        depth = 0
        instr = False
        # find matching open paren of final ')'
        stack = []
        j = 0
        last = None
        n = len(rv)
        while j < n:
            c = rv[j]
            if instr:
                if c == '\\':
                    j += 1
                elif c == '"':
                    instr = False
            elif c == '"':
                instr = True
            elif c == '(':
                stack.append(j)
            elif c == ')':
                last = (stack.pop(), j)
            j += 1
        if last and last[1] == n - 1:
            name = rv[:last[0]].strip()
            if name and not name.startswith(('copy', 'move', 'const')):
                ops = [parse_operand(x) for x in split_top(rv[last[0] + 1:last[1]])]
                return ('adt', name, ops, None)
    # bare path: unit struct / unit variant
    if re.match(r'^[A-Za-z_<]', rv) and not rv.endswith(')'):
        return ('adt', rv, [], None)
    raise ParseError('rvalue: ' + rv)


def split_call(rhs):
    """'callee(args)' -> (callee, [args])"""
    stack = []
    last = None
    instr = False
    i = 0
    n = len(rhs)
    while i < n:
        c = rhs[i]
        if instr:
            if c == '\\':
                i += 1
            elif c == '"':
                instr = False
        elif c == '"':
            instr = True
        elif c == '(':
            stack.append(i)
        elif c == ')':
            last = (stack.pop(), i)
        i += 1
    if not last or last[1] != n - 1:
        raise ParseError('call: ' + rhs)
    return rhs[:last[0]], split_top(rhs[last[0] + 1:last[1]])


def parse_targets(t):
    """'[return: bb1, unwind: bb2]' -> dict"""
    d = {}
    t = t.strip()
    if t.startswith('['):
        for part in split_top(t[1:-1]):
            if ': ' in part:
                k, v = part.split(': ', 1)
                d[k.strip()] = v.strip()
            else:
                d[part.split(' ')[0]] = part
    else:
        d['unwind'] = t
    return d


def bbnum(x):
    return int(x[2:]) if x and x.startswith('bb') else None


def parse_terminator(t, fn):
    if t == 'return;':
        return ('return',)
    if t in ('unreachable;',):
        return ('unreachable',)
    if t.startswith('resume') or t.startswith('unwind') or t.startswith('abort') or t.startswith('terminate'):
        return ('resume',)
    m = re.match(r'goto -> bb(\d+);$', t)
    if m:
        return ('goto', int(m.group(1)))
    m = re.match(r'switchInt\((.*)\) -> \[(.*)\];$', t)
    if m:
        op = parse_operand(m.group(1))
        arms = []
        other = None
        for a in m.group(2).split(', '):
            k, v = a.split(': ')
            if k == 'otherwise':
                other = int(v[2:])
            else:
                arms.append((int(k), int(v[2:])))
        return ('switch', op, arms, other, _operand_type(op, fn))
    m = re.match(r'drop\((.*)\) -> \[return: bb(\d+)', t)
    if m:
        return ('goto', int(m.group(2)))
    if t.startswith('assert('):
        # assert(cond, "msg", ops..) -> [success: bbN, unwind ...];
        k = t.rindex(' -> ')
        inner = t[len('assert('):k - 1]
        parts = split_top(inner)
        cond = parts[0]
        neg = False
        if cond.startswith('!'):
            neg = True
            cond = cond[1:]
        tg = parse_targets(t[k + 4:-1])
        return ('assert', parse_operand(cond), neg, parts[1] if len(parts) > 1 else '', bbnum(tg.get('success')))
    if t.startswith('falseEdge') or t.startswith('falseUnwind'):
        m = re.search(r'bb(\d+)', t)
        return ('goto', int(m.group(1)))
    # call
    k = t.rfind(' -> ')
    if k < 0:
        raise ParseError('terminator: ' + t)
    head = t[:k]
    tg = parse_targets(t[k + 4:-1])
    dest = None
    if head.startswith(('_', '(')):
        try:
            p, e = parse_place(head)
            if head.startswith(' = ', e):
                dest = p
                head = head[e + 3:]
        except ParseError:
            pass
    callee, args = split_call(head)
    return ('call', dest, callee, [parse_operand(a) for a in args], bbnum(tg.get('return')))


def parse_statement(st, fn):
    if st.startswith(('StorageLive', 'StorageDead', 'nop', 'FakeRead', 'PlaceMention', 'Retag', 'AscribeUserType',
                      'Coverage', 'ConstEvalCounter', 'BackwardIncompatibleDropHint', 'assume(')):
        return None
    if st.startswith('Deinit('):
        return None
    m = re.match(r'discriminant\((.*)\) = (\d+);$', st)
    if m:
        return ('setdiscr', parse_place(m.group(1))[0], int(m.group(2)))
    if st.startswith(('_', '(')):
        p, e = parse_place(st)
        if st.startswith(' = ', e) and st.endswith(';'):
            return ('assign', p, parse_rvalue(st[e + 3:-1], fn))
    raise ParseError('statement: ' + st)


HEADER_RE = re.compile(r'^fn (.+?)\((_1: .*)?\)( -> (.*))? \{$')
CONST_RE = re.compile(r'^(const|static(?: mut)?) (.+?): (.*) = \{$')


def parse_mir(text, crate):
    """returns (fns: list[Fn], allocs: dict alloc->static name)"""
    fns = []
    allocs = {}
    cur = None
    curbb = None
    lines = text.split('\n')
    pending = []     # raw (fn, bb, line) for lazy parse
    for ln, line in enumerate(lines):
        if not line:
            continue
        c0 = line[0]
        if c0 == 'f' and line.startswith('fn '):
            # find the '(' opening the parameter list (outside <...> / {...} of the name)
            depth = 0
            i = 3
            n = len(line)
            while i < n:
                ch = line[i]
                if ch in '<{[':
                    depth += 1
                elif ch in '>}]' and not (ch == '>' and line[i - 1] in '-='):
                    depth -= 1
                elif ch == '(' and depth == 0:
                    break
                i += 1
            if i >= n:
                raise ParseError('fn header: ' + line)
            e = skip_balanced(line, i)
            cur = Fn(line[3:i], crate, 'fn')
            cur.sig = line
            cur.lineno = ln + 1
            plist = line[i + 1:e - 1]
            rest = line[e:].strip()
            rm = re.match(r'-> (.*) \{$', rest)
            cur.ret = rm.group(1) if rm else '()'
            if plist.strip():
                for a in split_top(plist):
                    mm = re.match(r'_(\d+): (.*)$', a)
                    if not mm:
                        raise ParseError('fn param: ' + a + ' in ' + line)
                    cur.params.append((int(mm.group(1)), mm.group(2)))
                    cur.locals[int(mm.group(1))] = mm.group(2)
            cur.nargs = len(cur.params)
            fns.append(cur)
            curbb = None
            continue
        if c0 in 'cs' and (line.startswith('const ') or line.startswith('static ')):
            m = CONST_RE.match(line)
            if m:
                name = m.group(2)
                pm = re.match(r'(.*)::promoted\[(\d+)\]$', name)
                if pm:
                    cur = Fn(name, crate, 'promoted')
                    owner = None
                    for f in reversed(fns):
                        if f.kind != 'promoted' and f.name == pm.group(1):
                            owner = f
                            break
                    if owner is None:
                        # generic or differently printed owner: attach to the most recent non-promoted item
                        for f in reversed(fns):
                            if f.kind != 'promoted':
                                owner = f
                                break
                    owner.promoted[int(pm.group(2))] = cur
                else:
                    cur = Fn(name, crate, 'const' if m.group(1) == 'const' else 'static')
                cur.sig = line
                cur.lineno = ln + 1
                cur.ret = m.group(3)
                fns.append(cur)
                curbb = None
                continue
        if c0 in 'cs' and (line.startswith('const ') or line.startswith('static ')) and line.endswith(';'):
            m = re.match(r'^(const|static(?: mut)?) (.+?): (.*?) = (.*);$', line)
            if m:
                f1 = Fn(m.group(2), crate, 'const' if m.group(1) == 'const' else 'static')
                f1.sig = line
                f1.lineno = ln + 1
                f1.ret = m.group(3)
                f1.locals[0] = m.group(3)
                f1.blocks[0] = ['_0 = %s;' % m.group(4), 'return;']
                fns.append(f1)
                continue
        if c0 == 'a' and line.startswith('alloc'):
            m = re.match(r'(alloc\d+) \(static: ([^,]+),', line)
            if m:
                allocs[m.group(1)] = m.group(2)
            continue
        if cur is None:
            continue
        if line == '}':
            cur = None
            curbb = None
            continue
        l = line.strip()
        if curbb is None or l.startswith('let '):
            m = re.match(r'let (?:mut )?_(\d+): (.*);$', l)
            if m:
                cur.locals[int(m.group(1))] = m.group(2)
                continue
        m = re.match(r'bb(\d+)(?: \(cleanup\))?: \{$', l)
        if m:
            curbb = []
            cur.blocks[int(m.group(1))] = curbb
            continue
        if curbb is None or l in ('}', '') or l.startswith(('debug ', 'scope ', '//')):
            continue
        curbb.append(l)
    return fns, allocs


def finalize_block(fn, bb):
    """lazily parse a block's raw lines into (stmts, term)."""
    raw = fn.blocks[bb]
    if isinstance(raw, tuple):
        return raw
    stmts = []
    for st in raw[:-1]:
        try:
            ps = parse_statement(st, fn)
        except ParseError as e:
            ps = ('gap', 'parse error: %s' % e)
        except Exception as e:  # noqa
            ps = ('gap', 'parse crash %r on: %s' % (e, st))
        if ps is not None:
            stmts.append(ps)
    try:
        term = parse_terminator(raw[-1], fn)
    except ParseError as e:
        term = ('gap', 'parse error: %s' % e)
    except Exception as e:  # noqa
        term = ('gap', 'parse crash %r on: %s' % (e, raw[-1]))
    res = (stmts, term)
    fn.blocks[bb] = res
    return res
