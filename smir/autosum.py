# Function-level path merging ("auto summaries"): a repository function whose arguments and result are trees of
# scalars is executed once from placeholder arguments; its paths are merged into one relational formula
#     OR_i ( path_condition_i  /\  result = result_i )       (+ OR_j panic_condition_j)
# which is instantiated (placeholders -> actual terms, internal variables -> fresh copies) at every call site.
# The case split moves from the executor (path explosion) into the solver.  The summary is derived from the MIR of
# the current tree on every run, so it follows any change of the function.
import z3
from .values import *   # noqa

RANGE = {'Uint128': (0, U128_MAX), 'Decimal': (0, U128_MAX), 'U256': (0, 2 ** 256 - 1), 'Uint64': (0, U64_MAX)}


def leaves(v, out, path=()):
    """flatten a value into scalar leaves; returns a rebuild recipe"""
    if isinstance(v, bool) or (is_sym(v) and z3.is_bool(v)):
        out.append(('bool', v, None))
        return ('leaf', len(out) - 1)
    if isinstance(v, int) or is_sym(v):
        out.append(('int', v, None))
        return ('leaf', len(out) - 1)
    if isinstance(v, Agg):
        rng = RANGE.get(v.ty)
        if rng is not None and len(v.fields) == 1 and (isinstance(v.fields[0], int) or is_sym(v.fields[0])) \
                and not isinstance(v.fields[0], bool):
            out.append(('int', v.fields[0], rng))
            return ('agg', v.ty, v.variant, v.vname, [('leaf', len(out) - 1)])
        return ('agg', v.ty, v.variant, v.vname, [leaves(f, out) for f in v.fields])
    raise Gap('auto summary: unsupported value %r' % (v,))


def rebuild(recipe, vals):
    if recipe[0] == 'leaf':
        return vals[recipe[1]]
    _, ty, variant, vname, subs = recipe
    return Agg(ty, [rebuild(s, vals) for s in subs], variant, vname)


class Summary:
    pass


def vars_in(exprs):
    from .framework import vars_of
    out = {}
    stack = [e for e in exprs if is_sym(e)]
    seen = set()
    while stack:
        x = stack.pop()
        i = x.get_id()
        if i in seen:
            continue
        seen.add(i)
        if z3.is_app(x):
            if x.num_args() == 0:
                if x.decl().kind() == z3.Z3_OP_UNINTERPRETED:
                    out[x.decl().name()] = x
            else:
                stack.extend(x.children())
    return out


def build(I, fn, args):
    """execute fn once from placeholder arguments shaped like args"""
    from .interp import State
    st = State()
    tmpl_args = []
    params = []
    recipes = []
    for ai, a in enumerate(args):
        lv = []
        rec = leaves(a, lv)
        vals = []
        for li, (kind, _, rng) in enumerate(lv):
            nm = 'p!%s!%d!%d' % (fn.name.split('::')[-1], ai, li)
            if kind == 'bool':
                p = z3.Bool(nm)
            else:
                p = z3.Int(nm)
                if rng is not None:
                    st.add(z3.And(p >= rng[0], p <= rng[1]))
                    I.set_bounds(p, rng[0], rng[1])
            params.append(p)
            vals.append(p)
        tv = rebuild(rec, vals)
        if ai < len(fn.params) and fn.params[ai][1].lstrip().startswith('&'):
            tv = Ref(st.new_cell(tv), ())
        tmpl_args.append(tv)
        recipes.append((rec, len(lv)))
    n0 = len(st.pc)
    saved = I.auto_merge
    I.auto_merge = set(x for x in saved if not fn.name.endswith(x))      # no self-recursion; nested summaries allowed
    I.no_merge_fn = getattr(I, 'no_merge_fn', set()) | {fn.name}
    try:
        outs = list(I.call_fn(st, fn, tmpl_args))
    finally:
        I.auto_merge = saved
        I.no_merge_fn = I.no_merge_fn - {fn.name}
    S = Summary()
    S.fn = fn
    S.params = params
    S.ok = []
    S.panic = []
    S.recipe = None
    for st2, v in outs:
        cons = [c for c in st2.pc[n0:] if c is not True]
        if isinstance(v, Panic):
            S.panic.append((cons, v.msg))
            continue
        lv = []
        rec = leaves(v, lv)
        if S.recipe is None:
            S.recipe = rec
            S.kinds = [k for k, _, _ in lv]
        elif repr(rec) != repr(S.recipe):
            raise Gap('auto summary of %s: paths return differently shaped values' % fn.name)
        S.ok.append((cons, [x for _, x, _ in lv]))
    pn = set(p.decl().name() for p in params)
    allexprs = []
    for cons, res in S.ok:
        allexprs += cons + [r for r in res if is_sym(r)]
    for cons, _ in S.panic:
        allexprs += cons
    S.internals = [v for n, v in vars_in(allexprs).items() if n not in pn]
    S.type_ranges = [c for c in st.pc[:n0]]
    return S


def instantiate(I, st, S, args):
    """yields (state, value | Panic) for a call with actual arguments"""
    actual = []
    for a in args:
        lv = []
        leaves(I.val(st, a) if isinstance(a, Ref) else a, lv)
        actual += [x for _, x, _ in lv]
    if len(actual) != len(S.params):
        raise Gap('auto summary of %s: argument shape mismatch' % S.fn.name)
    sub = []
    for p, a in zip(S.params, actual):
        if isinstance(a, bool):
            a = z3.BoolVal(a)
        elif isinstance(a, int):
            a = z3.IntVal(a)
        sub.append((p, a))
    for v in S.internals:
        I.fresh_n += 1
        nv = z3.Const('%s~%d' % (v.decl().name().split('~')[0], I.fresh_n), v.sort())
        sub.append((v, nv))

    def inst(e):
        if isinstance(e, (bool, int)):
            return e
        return z3.substitute(e, *sub)
    panic_cond = z3.Or(*[z3.And(*[inst(c) for c in cons]) if cons else z3.BoolVal(True) for cons, _ in S.panic]) if S.panic else False
    outs = []
    if S.panic and I.feasible(st, panic_cond):
        st2 = st.clone()
        st2.add(panic_cond)
        outs.append((st2, Panic('%s: %s' % (S.fn.name.split('::')[-1], ' | '.join(sorted(set(m for _, m in S.panic)))[:120]))))
    if S.ok:
        res = []
        for k in S.kinds:
            I.fresh_n += 1
            res.append(z3.Bool('res~%d' % I.fresh_n) if k == 'bool' else z3.Int('res~%d' % I.fresh_n))
        disj = []
        for cons, rs in S.ok:
            eqs = []
            for rv, r in zip(res, rs):
                ri = inst(r)
                if isinstance(ri, bool):
                    ri = z3.BoolVal(ri)
                eqs.append(rv == ri)
            disj.append(z3.And(*([inst(c) for c in cons] + eqs)))
        ok_cond = z3.Or(*disj) if len(disj) > 1 else disj[0]
        if I.feasible(st, ok_cond):
            st.add(ok_cond)
            outs.append((st, rebuild(S.recipe, res)))
    for o in outs:
        yield o
