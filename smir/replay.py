# Replay of solver models against the real compiled contracts (Rust runner in /verif/replay).
import os
import json
import subprocess
import fcntl

from . import framework

VERIF = framework.VERIF
RUNNER_DIR = os.path.join(VERIF, 'replay')
TARGET = os.path.join(VERIF, '.cache', 'replay-target')


def build_runner(repo=None):
    """(re)build the runner against the current tree of the repository (incremental).  VERIF_REPO selects another copy
    of the repository (used to run the checks on a patched copy without touching /repo): the runner crate is then
    instantiated inside that copy with its path dependencies rewritten and its *own* target directory (cargo's artifact
    names do not depend on where a path dependency lives, so a shared target directory lets one tree link against
    rlibs compiled from the other tree's sources)."""
    import shutil
    repo = os.path.abspath(repo or os.environ.get('VERIF_REPO', '/repo'))
    env = dict(os.environ)
    env['CARGO_NET_OFFLINE'] = 'true'
    env.pop('RUSTUP_TOOLCHAIN', None)
    os.makedirs(os.path.join(VERIF, '.cache'), exist_ok=True)
    if repo == '/repo':
        runner_dir, target = RUNNER_DIR, TARGET
        lockfile = os.path.join(VERIF, '.cache', 'replay.lock')
    else:
        runner_dir = os.path.join(repo, '.verif-replay')
        target = os.path.join(runner_dir, 'target')
        os.makedirs(os.path.join(runner_dir, 'src'), exist_ok=True)
        for fn in os.listdir(os.path.join(RUNNER_DIR, 'src')):
            dst = os.path.join(runner_dir, 'src', fn)
            if not os.path.exists(dst):
                shutil.copy(os.path.join(RUNNER_DIR, 'src', fn), dst)
        toml = open(os.path.join(RUNNER_DIR, 'Cargo.toml')).read().replace('"/repo/', '"%s/' % repo)
        if not os.path.exists(os.path.join(runner_dir, 'Cargo.toml')):
            open(os.path.join(runner_dir, 'Cargo.toml'), 'w').write(toml)
            if os.path.exists(os.path.join(RUNNER_DIR, 'Cargo.lock')):
                shutil.copy(os.path.join(RUNNER_DIR, 'Cargo.lock'), os.path.join(runner_dir, 'Cargo.lock'))
        lockfile = os.path.join(runner_dir, 'build.lock')
    env['CARGO_TARGET_DIR'] = target
    lock = open(lockfile, 'w')
    fcntl.flock(lock, fcntl.LOCK_EX)
    try:
        p = subprocess.run(['cargo', 'build', '--release', '--offline'], cwd=runner_dir, env=env,
                           stdout=subprocess.PIPE, stderr=subprocess.STDOUT, text=True)
        if p.returncode != 0:
            return None, p.stdout[-3000:]
    finally:
        fcntl.flock(lock, fcntl.LOCK_UN)
        lock.close()
    return os.path.join(target, 'release', 'krp-replay'), ''


def run_scenario(scn):
    """execute one scenario (dict) with the real code; returns the runner's JSON output."""
    exe, errtxt = build_runner()
    if exe is None:
        return {'error': 'runner build failed: ' + errtxt}
    p = subprocess.run([exe], input=json.dumps(scn), stdout=subprocess.PIPE, stderr=subprocess.PIPE, text=True)
    if p.returncode != 0:
        return {'error': 'runner failed rc=%d: %s' % (p.returncode, p.stderr[-2000:])}
    try:
        return json.loads(p.stdout)
    except Exception as e:   # noqa
        return {'error': 'runner output not JSON: %r %s' % (e, p.stdout[:500])}


def replay_violation(pid, mod, obname, v, work, idx):
    """status: reproduced | mismatch | unavailable"""
    fn = getattr(mod, 'REPLAY', {}).get(obname) or getattr(mod, 'REPLAY', {}).get('*')
    if fn is None and 'scenario_t' in v and hasattr(mod, 'ORACLE'):
        fn = generic_replay(mod)
    if fn is None:
        return {'status': 'unavailable', 'detail': 'no replay builder for this obligation', 'traces': 0}
    try:
        res = fn(v, run_scenario)
    except Exception as e:   # noqa
        import traceback
        return {'status': 'unavailable', 'detail': 'replay builder failed: %r %s' % (e, traceback.format_exc()[-800:]),
                'traces': 0}
    # runs on a patched copy of the repository (VERIF_REPO) never write into /verif/evidence
    evbase = os.path.join(VERIF, 'evidence') if os.path.abspath(os.environ.get('VERIF_REPO', '/repo')) == '/repo' \
        else os.path.join(VERIF, '.work', 'evidence-copy')
    os.makedirs(os.path.join(evbase, 'replays'), exist_ok=True)
    path = os.path.join(evbase, 'replays', '%s-%s-%d.json' % (pid, obname, idx))
    with open(path, 'w') as f:
        json.dump({'property': pid, 'obligation': obname, 'claim': v['claim'], 'site': v['site'], 'model': v['model'],
                   'scenario': res.get('scenario'), 'real_output': res.get('output'), 'oracle': res.get('oracle'),
                   'rerun': './check %s --replay %s' % (pid, path)}, f, indent=1, default=str)
    res['path'] = path
    res.setdefault('traces', 1)
    return res


def confirm(mod, obname, v):
    """run the real code on a path model on which the claim was proved; status 'mismatch' = the real code satisfies the claim."""
    fn = getattr(mod, 'REPLAY', {}).get(obname) or getattr(mod, 'REPLAY', {}).get('*')
    if fn is None and 'scenario_t' in v and hasattr(mod, 'ORACLE'):
        fn = generic_replay(mod)
    if fn is None:
        return {'status': 'unavailable', 'detail': 'no replay builder'}
    try:
        return fn(v, run_scenario)
    except Exception as e:   # noqa
        import traceback
        return {'status': 'unavailable', 'detail': 'replay builder failed: %r %s' % (e, traceback.format_exc()[-300:])}


def replay_file(path):
    with open(path) as f:
        d = json.load(f)
    out = run_scenario(d['scenario'])
    print(json.dumps({'scenario': d['scenario'], 'real_output': out}, indent=1))
    return 0


def generic_replay(mod):
    """scenario template + model -> scenario; real run; the module's ORACLE(v, scenario, out) lists what is violated."""
    from . import tojson, rawstore

    def fn(v, run):
        tojson.set_string_names({int(k): s for k, s in v.get('strings', {}).items()})
        scn = tojson.instantiate(v['scenario_t'], v['model'])
        out = run(scn)
        if 'error' in out:
            return {'status': 'unavailable', 'detail': out['error'], 'scenario': scn}
        if isinstance(out.get('storage'), list):
            out['storage_decoded'] = {rawstore.b64(k): val for k, val in rawstore.decode_storage(out['storage']).items()}
        bad = mod.ORACLE(v, scn, out)
        if bad is None:
            return {'status': 'unavailable', 'detail': 'no oracle for claim ' + str(v.get('key')), 'scenario': scn, 'output': out}
        return {'status': 'reproduced' if bad else 'mismatch', 'scenario': scn, 'output': out, 'oracle': bad,
                'detail': '' if bad else 'real code satisfies the claim on the model input'}
    return fn
