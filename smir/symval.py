# Construction of symbolic values of a Rust type (used for lazily initialised storage and by harnesses).
import re
import z3

from .values import *   # noqa
from .interp import base_name
from . import typedefs
from .mirparse import split_top


class SymCtx:
    """options for symbolic value construction."""
    vec_len = 1          # length of Vec<T> fields not supplied by the harness
    max_depth = 6


def fresh_value(I, st, ty, crate, name, depth=0, opts=None):
    ty = ty.strip()
    opts = opts or SymCtx
    while ty.startswith('&'):
        ty = ty[1:].lstrip()
        if ty.startswith('mut '):
            ty = ty[4:]
    if ty in INT_RANGE:
        v = I.fresh(name)
        lo, hi = INT_RANGE[ty]
        st.add(z3.And(v >= lo, v <= hi))
        I.set_bounds(v, lo, hi)
        return v
    if ty == 'bool':
        return I.fresh(name, 'bool')
    if ty == '()':
        return UNIT
    b = base_name(ty)
    if b in ('String', 'str'):
        return StrV(I.fresh(name + '_s'))
    if b == 'Addr':
        return Agg('Addr', (StrV(I.fresh(name + '_addr')),))
    if b == 'CanonicalAddr':
        return Agg('CanonicalAddr', (StrV(I.fresh(name + '_caddr')),))
    if b == 'Uint128':
        v = I.fresh(name)
        st.add(z3.And(v >= 0, v <= U128_MAX))
        I.set_bounds(v, 0, U128_MAX)
        return U128(v)
    if b == 'Decimal':
        v = I.fresh(name)
        st.add(z3.And(v >= 0, v <= U128_MAX))
        I.set_bounds(v, 0, U128_MAX)
        return DEC(v)
    if b == 'Uint64':
        v = I.fresh(name)
        st.add(z3.And(v >= 0, v <= U64_MAX))
        return Agg('Uint64', (v,))
    if b == 'Timestamp':
        v = I.fresh(name)
        st.add(z3.And(v >= 0, v <= U64_MAX))
        return Agg('Timestamp', (v,))
    if b == 'Binary':
        return JsonV(Agg('OpaqueBinary', (I.fresh(name + '_bin'),)))
    if b == 'Option':
        inner = typedefs.generic_args(ty)
        tag = I.fresh(name + '_tag')
        st.add(z3.And(tag >= 0, tag <= 1))
        return SymEnum(tag, (NONE, some(fresh_value(I, st, inner[0], crate, name + '_some', depth + 1, opts))))
    if b == 'Vec':
        inner = typedefs.generic_args(ty)
        n = opts.vec_len
        return VecV([fresh_value(I, st, inner[0], crate, '%s_%d' % (name, i), depth + 1, opts) for i in range(n)])
    if ty.startswith('('):
        parts = split_top(ty[1:-1])
        return Agg('()', [fresh_value(I, st, p, crate, '%s_%d' % (name, i), depth + 1, opts) for i, p in enumerate(parts)])
    td = I.types.lookup(ty, crate)
    if td is None:
        raise Gap('cannot build a symbolic value of type %s' % ty)
    if depth > opts.max_depth:
        raise Gap('symbolic value too deep: ' + ty)
    if td.kind == 'struct':
        return Agg(td.name, [fresh_value(I, st, f[1], td.crate, '%s_%s' % (name, f[0] if f[0] else i), depth + 1, opts)
                             for i, f in enumerate(td.fields)], td=td)
    # enum
    alts = []
    for vi, (vn, vk, vf) in enumerate(td.variants):
        alts.append(Agg(td.name, [fresh_value(I, st, f[1], td.crate, '%s_%s_%s' % (name, vn, f[0] if f[0] else i),
                                              depth + 1, opts) for i, f in enumerate(vf)], vi, vn, td=td))
    if len(alts) == 1:
        return alts[0]
    tag = I.fresh(name + '_tag')
    st.add(z3.And(tag >= 0, tag < len(alts)))
    return SymEnum(tag, alts)


class Mk:
    """build concrete-shape values by field name using the parsed type definitions."""

    def __init__(self, I):
        self.I = I

    def struct(self, ty, crate=None, **fields):
        td = self.I.types.lookup(ty, crate)
        if td is None or td.kind != 'struct':
            raise Gap('Mk.struct: unknown struct ' + ty)
        vals = []
        for fname, fty in td.fields:
            if fname not in fields:
                raise Gap('Mk.struct(%s): missing field %s' % (ty, fname))
            vals.append(fields.pop(fname))
        if fields:
            raise Gap('Mk.struct(%s): unknown fields %s' % (ty, list(fields)))
        return Agg(td.name, vals, td=td)

    def variant(self, ty, vname, *pos, crate=None, **fields):
        td = self.I.types.lookup(ty, crate)
        if td is None or td.kind != 'enum':
            raise Gap('Mk.variant: unknown enum ' + ty)
        vi = td.variant_index(vname)
        if vi is None:
            raise Gap('Mk.variant: %s has no variant %s' % (ty, vname))
        vn, vk, vf = td.variants[vi]
        if vk == 'struct':
            vals = []
            for fname, fty in vf:
                if fname not in fields:
                    raise Gap('Mk.variant(%s::%s): missing field %s' % (ty, vname, fname))
                vals.append(fields.pop(fname))
            if fields:
                raise Gap('Mk.variant(%s::%s): unknown fields %s' % (ty, vname, list(fields)))
            return Agg(td.name, vals, vi, vn, td=td)
        return Agg(td.name, pos, vi, vn, td=td)

    def field(self, v, ty, fname, crate=None):
        td = self.I.types.lookup(ty, crate)
        return v.fields[td.field_index(fname)]

    def vfield(self, v, ty, fname, crate=None):
        td = self.I.types.lookup(ty, crate)
        vn, vk, vf = td.variants[v.variant]
        for i, f in enumerate(vf):
            if f[0] == fname:
                return v.fields[i]
        raise KeyError(fname)

    def addr(self, s):
        return Agg('Addr', (s if isinstance(s, StrV) else self.I.S(s),))

    def caddr(self, s):
        return Agg('CanonicalAddr', (s if isinstance(s, StrV) else self.I.S(s),))

    def coin(self, amount, denom):
        return Agg('Coin', (denom if isinstance(denom, StrV) else self.I.S(denom), U128(amount)))

    def env(self, time, contract, height=None):
        I = self.I
        block = self.struct('BlockInfo', 'cosmwasm_std', height=height if height is not None else 12345,
                            time=Agg('Timestamp', (time,)), chain_id=I.S('chain'))
        ci = self.struct('ContractInfo', 'cosmwasm_std', address=self.addr(contract))
        return self.struct('Env', 'cosmwasm_std', block=block, transaction=NONE, contract=ci)

    def info(self, sender, funds=()):
        return self.struct('MessageInfo', 'cosmwasm_std', sender=self.addr(sender), funds=VecV(funds))

    def deps(self, mutable=True):
        q = Agg('QuerierWrapper', (Handle('querier'),))
        return Agg('DepsMut' if mutable else 'Deps', (Handle('storage'), Handle('api'), q))
