# Value domain of the SMIR symbolic executor.  All values are immutable.
import z3

U128_MAX = 2 ** 128 - 1
U64_MAX = 2 ** 64 - 1
E18 = 10 ** 18

INT_RANGE = {
    'u8': (0, 2 ** 8 - 1), 'u16': (0, 2 ** 16 - 1), 'u32': (0, 2 ** 32 - 1), 'u64': (0, 2 ** 64 - 1),
    'u128': (0, 2 ** 128 - 1), 'usize': (0, 2 ** 64 - 1),
    'i8': (-2 ** 7, 2 ** 7 - 1), 'i16': (-2 ** 15, 2 ** 15 - 1), 'i32': (-2 ** 31, 2 ** 31 - 1),
    'i64': (-2 ** 63, 2 ** 63 - 1), 'i128': (-2 ** 127, 2 ** 127 - 1), 'isize': (-2 ** 63, 2 ** 63 - 1),
}


class Gap(Exception):
    """the encoder cannot represent something: never a silent skip (exit 2)."""


class Panic:
    """a Rust panic / abort: the transaction reverts."""
    __slots__ = ('msg',)

    def __init__(self, msg):
        self.msg = msg

    def __repr__(self):
        return 'Panic(%s)' % self.msg


class Agg:
    __slots__ = ('ty', 'fields', 'variant', 'vname', 'td')

    def __init__(self, ty, fields=(), variant=None, vname=None, td=None):
        self.ty = ty
        self.fields = tuple(fields)
        self.variant = variant
        self.vname = vname
        self.td = td          # type definition (typedefs.TypeDef) when known: disambiguates equally named types

    def with_field(self, i, v):
        f = list(self.fields)
        while len(f) <= i:
            f.append(None)
        f[i] = v
        return Agg(self.ty, f, self.variant, self.vname, self.td)

    def __repr__(self):
        if self.variant is not None:
            return '%s::%s%r' % (self.ty, self.vname if self.vname else self.variant, self.fields)
        return '%s%r' % (self.ty, self.fields)


class Sparse:
    """partially initialised memory reached through raw-pointer projections (vec! lowering)."""
    __slots__ = ('d',)

    def __init__(self, d=None):
        self.d = dict(d or {})


class VecV:
    __slots__ = ('items', 'elem')

    def __init__(self, items=(), elem=None):
        self.items = tuple(items)
        self.elem = elem

    def __repr__(self):
        return 'Vec%r' % (list(self.items),)


class StrV:
    """a string identified by an integer id (python int for literals, z3 Int when symbolic)."""
    __slots__ = ('id',)

    def __init__(self, id_):
        self.id = id_

    def __repr__(self):
        return 'Str(%s)' % (self.id,)


class BytesV:
    __slots__ = ('b',)

    def __init__(self, b):
        self.b = bytes(b)

    def __repr__(self):
        return 'Bytes(%r)' % (self.b,)


class JsonV:
    """injective opaque wrapper standing for the JSON encoding (Vec<u8> or Binary) of a typed value."""
    __slots__ = ('v', 'ty')

    def __init__(self, v, ty=None):
        self.v = v
        self.ty = ty

    def __repr__(self):
        return 'Json(%r)' % (self.v,)


class KeyV:
    """opaque byte key derived from values (to_be_bytes, concatenations)."""
    __slots__ = ('parts',)

    def __init__(self, parts):
        self.parts = tuple(parts)

    def __repr__(self):
        return 'Key%r' % (self.parts,)


class Ref:
    __slots__ = ('cell', 'path')

    def __init__(self, cell, path=()):
        self.cell = cell
        self.path = path

    def __repr__(self):
        return 'Ref(%s%s)' % (self.cell, ''.join('.%s' % (p[1],) for p in self.path))


class Handle:
    """environment objects: storage, api, querier."""
    __slots__ = ('kind', 'data')

    def __init__(self, kind, data=None):
        self.kind = kind
        self.data = data

    def __repr__(self):
        return 'Handle(%s)' % self.kind


class Closure:
    __slots__ = ('fn', 'caps', 'ty')

    def __init__(self, fn, caps, ty):
        self.fn = fn
        self.caps = tuple(caps)
        self.ty = ty
        # closures are accessed by field index like aggregates

    @property
    def fields(self):
        return self.caps

    def with_field(self, i, v):
        c = list(self.caps)
        c[i] = v
        return Closure(self.fn, c, self.ty)

    def __repr__(self):
        return 'Closure(%s)' % self.fn


class FnPtr:
    __slots__ = ('name',)

    def __init__(self, name):
        self.name = name


class Iter:
    """immutable iterator state. kind-specific fields in d."""
    __slots__ = ('kind', 'd')

    def __init__(self, kind, **d):
        self.kind = kind
        self.d = d

    def set(self, **kw):
        d = dict(self.d)
        d.update(kw)
        return Iter(self.kind, **d)

    def __getattr__(self, k):
        try:
            return self.d[k]
        except KeyError:
            raise AttributeError(k)

    def __repr__(self):
        return 'Iter(%s)' % self.kind


class SymEnum:
    """an enum value whose variant is decided by a symbolic tag: alts[i] is taken when tag == i."""
    __slots__ = ('tag', 'alts')

    def __init__(self, tag, alts):
        self.tag = tag
        self.alts = tuple(alts)

    def __repr__(self):
        return 'SymEnum(%s,%r)' % (self.tag, self.alts)


def is_sym(x):
    return isinstance(x, z3.ExprRef)


def is_conc(x):
    return isinstance(x, (int, bool)) and not isinstance(x, z3.ExprRef)


UNIT = Agg('()', ())


def U128(v):
    return Agg('Uint128', (v,))


def DEC(atomics):
    return Agg('Decimal', (atomics,))


def some(v):
    return Agg('Option', (v,), 1, 'Some')


NONE = Agg('Option', (), 0, 'None')


def ok(v):
    return Agg('Result', (v,), 0, 'Ok')


def err(e):
    return Agg('Result', (e,), 1, 'Err')


def stderr(msg):
    return Agg('StdError', (msg,), 0, 'GenericErr')
