# ./check <id> --tier quick|thorough
import os
import sys
import json
import time
import argparse
import importlib

from . import framework, engine

VERIF = framework.VERIF


def load_known():
    p = os.path.join(VERIF, 'known_findings.json')
    if not os.path.exists(p):
        return {'known': [], 'fixed': []}
    with open(p) as f:
        return json.load(f)


def main():
    ap = argparse.ArgumentParser()
    ap.add_argument('prop')
    ap.add_argument('--tier', default=os.environ.get('VERIF_TIER', 'quick'))
    ap.add_argument('--replay')
    ap.add_argument('--only')
    ap.add_argument('--jobs', type=int)
    ap.add_argument('--keep', action='store_true')
    ap.add_argument('--audit', action='store_true', help='list the claims that have no replay oracle')
    a = ap.parse_args()
    tier = a.tier if a.tier in ('quick', 'thorough') else 'quick'
    seed = int(os.environ.get('VERIF_SEED', '0') or 0)
    pid = a.prop.upper()
    modname = pid.lower()
    sys.path.insert(0, VERIF)
    t0 = time.time()
    if a.replay:
        from . import replay
        sys.exit(replay.replay_file(a.replay))
    try:
        results, wall, work, info = framework.run_check(pid, modname, tier, seed, a.jobs, a.only.split(',') if a.only else None)
    except engine.BuildError as e:
        print('BUILD-ERROR: %s' % e)
        write_evidence(pid, tier, seed, [], time.time() - t0, note='build failed', mod=None)
        sys.exit(2)
    mod = importlib.import_module('checks.' + modname)
    known = load_known()
    kn = [k for k in known.get('known', []) if k['property'] == pid]
    exit_code = 0
    viol_lines = []
    known_hit = set()
    nrep = 0
    for r in results:
        for g in r['gaps']:
            print('ENCODER-GAP obligation=%s: %s' % (r['name'], g))
            exit_code = max(exit_code, 2)
        seen_u = {}
        for u in r['unknowns']:
            seen_u[(u['claim'], u['site'])] = seen_u.get((u['claim'], u['site']), 0) + 1
        for (cl, si), n in seen_u.items():
            print('SOLVER-UNKNOWN obligation=%s claim=%s site=%s (%d paths)' % (r['name'], cl, si, n))
            exit_code = max(exit_code, 2)
        for w in r['missing_witness']:
            print('VACUITY obligation=%s: no reachability witness for %s' % (r['name'], w))
            exit_code = max(exit_code, 2)
    # violations: replay each against the real code, match against known findings
    from . import replay
    vio_n = 0
    for r in results:
        per_key = {}
        for i, v in enumerate(r['violations']):
            key = v.get('key') or v['site'] or v['claim']
            per_key[key] = per_key.get(key, 0) + 1
            if per_key[key] > 3:
                continue      # at most three models per claim are replayed
            rep = replay.replay_violation(pid, mod, r['name'], v, work, i)
            nrep += rep.get('traces', 0)
            v['replay'] = rep
            if rep['status'] == 'mismatch':
                print('ENCODER-MISMATCH obligation=%s claim=%s: the real code does not reproduce the model (%s)'
                      % (r['name'], v['claim'], rep.get('detail', '')))
                exit_code = max(exit_code, 2)
                continue
            if rep['status'] == 'unavailable':
                print('REPLAY-UNAVAILABLE obligation=%s claim=%s: %s' % (r['name'], v['claim'], rep.get('detail', '')))
                exit_code = max(exit_code, 2)
                continue
            hit = [k for k in kn if k['key'] == key]
            if hit:
                known_hit.add(key)
                continue
            vio_n += 1
            viol_lines.append('VIOLATION property=%s replay=%s' % (pid, rep.get('path', '-')))
            print('  obligation=%s claim=%s site=%s model=%s' % (r['name'], v['claim'], v['site'],
                                                               json.dumps(v['model'])[:600]))
    # encoder validation: witness models replayed on the real code must take the same kind of path
    from . import tojson
    for r in results:
        for w in r.get('witness_replays', []):
            try:
                tojson.set_string_names({int(k_): s_ for k_, s_ in w.get('strings', {}).items()})
                scn = tojson.instantiate(w['scenario_t'], w['model'])
                out = replay.run_scenario(scn)
            except Exception as e:   # noqa
                print('ENCODER-VALIDATION obligation=%s witness=%s: scenario could not be built (%r)' % (r['name'], w['label'], e))
                exit_code = max(exit_code, 2)
                continue
            nrep += 1
            res = out.get('result', {}) if isinstance(out, dict) else {}
            got = 'ok' if 'ok' in res else 'err'
            if 'error' in out:
                print('ENCODER-VALIDATION obligation=%s witness=%s: runner error %s' % (r['name'], w['label'], str(out['error'])[:200]))
                exit_code = max(exit_code, 2)
            elif got != w['expect']:
                print('ENCODER-MISMATCH obligation=%s witness=%s: SMIR path is %s, the real code returns %s' % (r['name'], w['label'], w['expect'], str(res)[:200]))
                exit_code = max(exit_code, 2)
    # encoder validation, holds side: path models on which the solver proved a claim are run on the real code and judged
    # by the module's replay oracle, which must find the claim satisfied
    confirmed, no_oracle = 0, set()
    for r in results:
        for w in r.get('confirm_replays', []):
            res = replay.confirm(mod, r['name'], w)
            if res['status'] == 'mismatch':
                confirmed += 1
                nrep += 1
            elif res['status'] == 'reproduced':
                nrep += 1
                print('ENCODER-MISMATCH obligation=%s claim=%s site=%s: the solver proved the claim on this path, the real code violates it on the path model (%s) model=%s'
                      % (r['name'], w['claim'], w['key'], str(res.get('oracle'))[:300], json.dumps(w['model'])[:400]))
                exit_code = max(exit_code, 2)
            else:
                no_oracle.add((r['name'], w['key'], str(res.get('detail'))[:120]))
    info['confirmations'] = {'replayed_and_agreeing': confirmed, 'claims_without_replay_oracle': sorted('%s/%s' % (o, k_) for o, k_, _ in no_oracle)}
    has_star = bool(getattr(mod, 'REPLAY', {}).get('*'))
    no_scn = sorted('%s/%s' % (r['name'], k_) for r in results for k_ in r.get('no_scenario_keys', [])
                    if not (has_star or getattr(mod, 'REPLAY', {}).get(r['name'])))
    no_scn += sorted('%s/%s (structural)' % (r['name'], v['key']) for r in results for v in r['violations'] if 'scenario_t' not in v and not has_star) if False else []
    info['confirmations']['claims_without_replay_scenario'] = no_scn
    if a.audit:
        for x in no_scn:
            print('AUDIT no replay scenario: %s' % x)
        for o, k_, d in sorted(no_oracle):
            print('AUDIT no replay oracle: obligation=%s site=%s (%s)' % (o, k_, d))
    for k in kn:
        if k['key'] in known_hit:
            print('KNOWN-FINDING: property=%s %s' % (pid, k['what']))
        else:
            # listed finding did not show up: the defect may have been repaired or the check lost it
            print('NOTE: known finding "%s" was not re-derived on this tree' % k['key'])
    for l in viol_lines:
        print(l)
    if viol_lines:
        exit_code = 1 if exit_code < 2 else exit_code
        if exit_code == 2 and viol_lines:
            exit_code = 1
    ev = write_evidence(pid, tier, seed, results, time.time() - t0, mod=mod, work=work, violations=vio_n, nrep=nrep,
                        known=sorted(known_hit), info=info)
    if not a.keep:
        engine.cleanup(work)
    tot = lambda k: sum(r[k] for r in results)   # noqa
    print('phases: %s  mir_dump_s=%s  per-obligation wall: %s' % (info, work['dump_s'], {r['name']: round(r['wall'], 1) for r in results}))
    print('%s tier=%s obligations=%d paths=%d queries(sat/unsat/unknown)=%d/%d/%d solver_s=%.1f wall_s=%.1f exit=%d'
          % (pid, tier, len(results), tot('paths'), tot('sat'), tot('unsat'), tot('unknown'), tot('solver_s'),
             time.time() - t0, exit_code))
    sys.exit(exit_code)


def write_evidence(pid, tier, seed, results, wall, note=None, mod=None, work=None, violations=0, nrep=0, known=(), info=None):
    # evidence describes runs against /repo itself; a run on a patched copy (VERIF_REPO, seeded changes) records elsewhere
    evdir = os.path.join(VERIF, 'evidence') if os.path.abspath(engine.REPO) == '/repo' else os.path.join(VERIF, '.work', 'evidence-copy')
    os.makedirs(evdir, exist_ok=True)
    fns = set()
    summ = set()
    for r in results:
        fns |= set(r['functions'])
        summ |= set(r['summaries'])
    samples = []
    for r in results:
        for w in r['witnesses'][:2]:
            samples.append({'obligation': r['name'], 'witness': w})
        for s in r['samples'][:2]:
            samples.append({'obligation': r['name'], 'sample': s})
    if not samples:
        samples = [{'note': note or 'no samples'}]
    cov = {
        'states': max(1, sum(r['paths'] for r in results)),
        'transitions': max(1, sum(r['blocks'] for r in results)),
        'traces_validated_against_impl': nrep,
        'samples': samples[:40],
        'obligations': len(results),
        'discharged': sum(1 for r in results if not r['violations'] and not r['unknowns'] and not r['gaps']),
        'obligation_list': [{'name': r['name'], 'paths': r['paths'], 'sat': r['sat'], 'unsat': r['unsat'],
                         'unknown': r['unknown'], 'violations': len(r['violations']), 'gaps': r['gaps'],
                         'witnesses': [w['label'] for w in r['witnesses']], 'wall_s': round(r['wall'], 2),
                         'solver_s': round(r['solver_s'], 2), 'notes': r['notes'], 'bounds': r['bounds']}
                        for r in results],
        'functions_encoded': sorted(fns),
        'summaries_used': sorted(summ),
        'queries': {'sat': sum(r['sat'] for r in results), 'unsat': sum(r['unsat'] for r in results),
                    'unknown': sum(r['unknown'] for r in results),
                    'branch_feasibility': sum(r['feas_queries'] for r in results)},
        'solver_s': round(sum(r['solver_s'] for r in results), 2),
        'bounds': getattr(mod, 'BOUNDS', {}).get(tier, {}) if mod else {},
        'outside_claim': getattr(mod, 'OUTSIDE', []) if mod else [],
        'known_findings_rederived': list(known),
        'mir': {'crates': work['crates'], 'dump_s': work['dump_s']} if work else {},
        'phases': info or {},
        'solver': 'z3 %s (python bindings), Int theory, division by lemma' % '.'.join(map(str, __import__('z3').get_version())),
    }
    ev = {
        'property_id': pid,
        'tier': tier,
        'seed': seed,
        'level': 'model_checking',
        'coverage': cov,
        'assumptions': getattr(mod, 'ASSUMPTIONS', []) if mod else [],
        'wall_s': round(wall, 2),
        'violations': violations,
    }
    with open(os.path.join(evdir, pid + '.json'), 'w') as f:
        json.dump(ev, f, indent=1, default=str)
    return ev


if __name__ == '__main__':
    main()
