# Symbolic value -> JSON template (serde wire format) with placeholders for symbolic leaves,
# and instantiation of a template under a solver model.  Used to replay models on the real contracts.
import re
import base64
import json
import z3

from .values import *   # noqa
from . import typedefs


def snake(name):
    s = re.sub(r'(?<!^)(?=[A-Z])', '_', name).lower()
    return s


class Templ:
    def __init__(self, I, crate=None):
        self.I = I
        self.crate = crate
        self.exprs = {}      # label -> z3 expr that must be evaluated under the model
        self.n = 0

    def leaf(self, v, kind):
        if isinstance(v, bool):
            return v if kind == 'bool' else int(v)
        if isinstance(v, int):
            return {'$' + kind: v}
        if z3.is_const(v) and v.decl().kind() == z3.Z3_OP_UNINTERPRETED:
            label = v.decl().name()
        else:
            self.n += 1
            label = 'tv!%d' % self.n
        self.exprs[label] = v
        return {'$' + kind: label}

    def string(self, s):
        if isinstance(s, Agg) and s.ty in ('Addr', 'CanonicalAddr'):
            s = s.fields[0]
        if isinstance(s, Agg) and s.ty == 'Shown':
            return 'shown'
        if isinstance(s, KeyV) and len(s.parts) == 1:
            s = s.parts[0]
        if not isinstance(s, StrV):
            raise Gap('tojson: not a string %r' % (s,))
        if isinstance(s.id, int):
            lit = self.I.strings_rev.get(s.id)
            return lit if lit is not None else ('sx%d' % s.id if s.id >= 0 else 'sm%d' % -s.id)
        return self.leaf(s.id, 'str')

    def lookup(self, name, crate, hint=None):
        cands = self.I.types.byname.get(name, [])
        if hint:
            td = self.I.types.lookup(hint, crate)
            if td is not None and td.name == name:
                return td
        own = [d for d in cands if d.crate == crate]
        if own:
            return own[0]
        return cands[0] if cands else None

    def value(self, v, crate=None, hint=None):
        crate = crate or self.crate
        I = self.I
        if v is None:
            return None
        if isinstance(v, bool):
            return v
        if isinstance(v, int):
            return v
        if is_sym(v):
            return self.leaf(v, 'bool' if z3.is_bool(v) else 'int')
        if isinstance(v, StrV):
            return self.string(v)
        if isinstance(v, BytesV):
            return base64.b64encode(v.b).decode()
        if isinstance(v, JsonV):
            inner = v.v
            if isinstance(inner, Agg) and inner.ty == 'OpaqueBinary':
                return {'$b64json': {'opaque': self.value(inner.fields[0])}}
            return {'$b64json': self.value(inner, crate, v.ty)}
        if isinstance(v, VecV):
            return [self.value(x, crate) for x in v.items]
        if isinstance(v, SymEnum):
            return {'$enum': self.leaf(v.tag, 'int'), 'alts': [self.value(a, crate, hint) for a in v.alts]}
        if isinstance(v, Agg):
            t = v.ty
            if t == 'Uint128':
                return self.leaf(v.fields[0], 'u128')
            if t == 'Decimal':
                return self.leaf(v.fields[0], 'dec')
            if t in ('Uint64',):
                return self.leaf(v.fields[0], 'u128')
            if t == 'Timestamp':
                return self.leaf(v.fields[0], 'nanos')
            if t == 'CanonicalAddr' and getattr(self, 'caddr_raw', False):
                return {'$caddr': self.string(v)}
            if t in ('Addr', 'CanonicalAddr'):
                return self.string(v)
            if t == 'Option':
                return None if v.variant == 0 else self.value(v.fields[0], crate)
            if t == '()':
                return [self.value(x, crate) for x in v.fields]
            if t == '[]':
                return [self.value(x, crate) for x in v.fields]
            td = v.td if v.td is not None else self.lookup(t, crate, hint)
            if td is None:
                raise Gap('tojson: unknown type ' + t)
            if td.kind == 'struct':
                if td.fields and td.fields[0][0] is None:
                    if len(v.fields) == 1:
                        return self.value(v.fields[0], td.crate)
                    return [self.value(x, td.crate) for x in v.fields]
                return {fname: self.value(x, td.crate, fty) for (fname, fty), x in zip(td.fields, v.fields)}
            vn, vk, vf = td.variants[v.variant]
            name = snake(vn) if td.rename_all == 'snake_case' else (vn.lower() if td.rename_all == 'lowercase' else vn)
            if vk == 'unit':
                return name
            if vk == 'tuple':
                if len(v.fields) == 1:
                    return {name: self.value(v.fields[0], td.crate, vf[0][1])}
                return {name: [self.value(x, td.crate) for x in v.fields]}
            return {name: {fname: self.value(x, td.crate, fty) for (fname, fty), x in zip(vf, v.fields)}}
        raise Gap('tojson: cannot serialise %r' % (v,))


def dec_str(atomics):
    a = int(atomics)
    whole, frac = divmod(a, 10 ** 18)
    if frac == 0:
        return str(whole)
    return '%d.%s' % (whole, ('%018d' % frac).rstrip('0'))


def instantiate(t, model):
    """fill a template with model values (model: label -> str/int)."""
    def val(label, default=0):
        if isinstance(label, (int, bool)):
            return label
        v = model.get(label, default)
        if isinstance(v, str):
            if v in ('True', 'False'):
                return v == 'True'
            try:
                return int(v)
            except ValueError:
                return default
        return v

    # strings that the model needs to be *not* lower-case: pairs (source id, id of its lower-cased form) recorded by the
    # to_lowercase summary; the source is rendered as an upper-cased spelling of the target's name
    names = {}
    i_ = 0
    while 'lower!%d!src' % i_ in model:
        src, dst = int(val('lower!%d!src' % i_)), int(val('lower!%d!dst' % i_))
        if src != dst and src not in STR_NAMES:
            base = names.get(dst) or STR_NAMES.get(dst, 'sx%d' % dst if dst >= 0 else 'sm%d' % -dst)
            up = base.upper()
            if up == base:
                up = base + 'X'
            # distinct sources with the same target get distinct casings
            k_ = 0
            cand = up
            while cand in names.values():
                k_ += 1
                cand = ''.join(ch.upper() if ((j_ + k_) % 2 == 0 or not ch.isalpha()) else ch.lower() for j_, ch in enumerate(base))
                if k_ > 8:
                    break
            names[src] = cand
        i_ += 1

    def rec(x):
        if isinstance(x, dict):
            if len(x) == 1:
                (k, v), = x.items()
                if k == '$int':
                    return int(val(v))
                if k == '$bool':
                    return bool(val(v, False))
                if k == '$u128':
                    return str(int(val(v)))
                if k == '$dec':
                    return dec_str(val(v))
                if k == '$nanos':
                    return str(int(val(v)) * 10 ** 9)
                if k == '$str':
                    i = int(val(v))
                    if i in names:
                        return names[i]
                    return STR_NAMES.get(i, 'sx%d' % i if i >= 0 else 'sm%d' % -i)
                if k == '$caddr':
                    from .rawstore import canonical, b64
                    return b64(canonical(rec(v)))
                if k == '$raw_storage':
                    from .rawstore import encode_storage
                    return encode_storage(v, model)
                if k == '$bytes':
                    return v
                if k == '$b64json':
                    return base64.b64encode(json.dumps(rec(v)).encode()).decode()
            if '$enum' in x:
                tag = rec(x['$enum'])
                alts = x['alts']
                return rec(alts[tag if 0 <= tag < len(alts) else 0])
            return {k: rec(v) for k, v in x.items()}
        if isinstance(x, list):
            return [rec(y) for y in x]
        return x
    return rec(t)


STR_NAMES = {}


def set_string_names(rev):
    STR_NAMES.clear()
    STR_NAMES.update(rev)
