# SMIR: symbolic executor for rustc MIR over z3 Int theory.
import re
import sys
import time
import itertools
import z3

from .mirparse import parse_mir, finalize_block, skip_balanced
from .values import *   # noqa
from . import typedefs

sys.setrecursionlimit(200000)
import os
SLOWLOG = bool(os.environ.get('SMIR_SLOWLOG'))


class Stats:
    def __init__(self):
        self.blocks = 0
        self.paths = 0
        self.feas_queries = 0
        self.feas_unknown = 0
        self.solver_s = 0.0
        self.fns = set()
        self.summaries = set()
        self.forks = 0
        self.quick = 0


class State:
    __slots__ = ('mem', 'pc', 'next_cell', 'stores', 'contract', 'log', 'ghost', 'depth', 'querier', 'tag')

    def __init__(self):
        self.mem = {}
        self.pc = []
        self.next_cell = 1
        self.stores = {}        # contract name -> Store (immutable-ish, copied on write)
        self.contract = None
        self.log = ()           # tuple of log events (queries, writes)
        self.ghost = {}
        self.depth = 0
        self.querier = None
        self.tag = None

    def clone(self):
        s = State.__new__(State)
        s.mem = dict(self.mem)
        s.pc = list(self.pc)
        s.next_cell = self.next_cell
        s.stores = dict(self.stores)
        s.contract = self.contract
        s.log = self.log
        s.ghost = dict(self.ghost)
        s.depth = self.depth
        s.querier = self.querier
        s.tag = self.tag
        return s

    def alloc(self, n=1):
        c = self.next_cell
        self.next_cell += n
        return c

    def new_cell(self, v):
        c = self.alloc()
        self.mem[c] = v
        return c

    def add(self, *cs):
        for c in cs:
            if c is True:
                continue
            self.pc.append(c)

    def emit(self, ev):
        self.log = self.log + (ev,)


def getpath(v, path, st=None):
    for p in path:
        k = p[0]
        if k == 'f':
            if isinstance(v, Sparse):
                v = v.d.get(p[1])
            elif isinstance(v, (Ref, Handle)):
                pass   # Box/Unique/NonNull wrappers around a pointer are transparent
            elif isinstance(v, VecV):
                raise Gap('field projection into Vec internals')
            elif v is None:
                raise Gap('read of uninitialised field')
            else:
                try:
                    v = v.fields[p[1]]
                except IndexError:
                    raise Gap('field %d out of range on %r' % (p[1], v))
        elif k == 'd':
            pass
        elif k == 'i':
            idx = p[1]
            if not isinstance(idx, int):
                raise Gap('symbolic index')
            items = v.items if isinstance(v, VecV) else (v.b if isinstance(v, BytesV) else v.fields)
            if idx < 0:
                idx = len(items) + idx
            v = items[idx]
        else:
            raise Gap('path elem %r' % (p,))
    return v


def setpath(v, path, new):
    if not path:
        return new
    p = path[0]
    k = p[0]
    if k == 'd':
        return setpath(v, path[1:], new)
    if k == 'f':
        if v is None or isinstance(v, Sparse):
            s = Sparse(v.d if v is not None else None)
            s.d[p[1]] = setpath(s.d.get(p[1]), path[1:], new)
            return s
        if isinstance(v, (Ref, Handle)):
            raise Gap('write through pointer wrapper field')
        old = v.fields[p[1]] if p[1] < len(v.fields) else None
        return v.with_field(p[1], setpath(old, path[1:], new))
    if k == 'i':
        idx = p[1]
        if not isinstance(idx, int):
            raise Gap('symbolic index write')
        if isinstance(v, VecV):
            items = list(v.items)
            items[idx] = setpath(items[idx], path[1:], new)
            return VecV(items, v.elem)
        f = list(v.fields)
        f[idx] = setpath(f[idx], path[1:], new)
        return Agg(v.ty, f, v.variant, v.vname)
    raise Gap('setpath %r' % (p,))


def same_term(a, b):
    if isinstance(a, int) or isinstance(b, int):
        return isinstance(a, int) and isinstance(b, int) and a == b
    return a.eq(b)


def strip_generics(s):
    """remove ::<...> turbofish groups and <'_> lifetimes from a callee path (not the leading <T as Trait>)."""
    out = []
    i = 0
    n = len(s)
    while i < n:
        if s.startswith('::<', i):
            e = skip_balanced(s, i + 2)
            i = e
            continue
        out.append(s[i])
        i += 1
    return ''.join(out)


def base_name(ty):
    """last path segment of a type string without refs/generics."""
    if ty is None:
        return None
    b = typedefs.base_path(ty)
    if b is None:
        t = ty.strip()
        if t.startswith('('):
            return '()'
        if t.startswith('['):
            return '[]'
        if t.startswith('{closure'):
            return t
        return None
    return b.split('::')[-1]


class Interp:
    def __init__(self, feas_timeout_ms=1500):
        self.crates = {}       # crate -> {name: Fn}
        self.bylast = {}       # last segment -> [Fn]
        self.allocs = {}       # crate -> {alloc: static name}
        self.types = None
        self.stats = Stats()
        self.solver = z3.Solver()
        self.solver.set('timeout', feas_timeout_ms)
        self.sstack = []
        self.strings = {}
        self.strings_rev = {}
        self.fresh_n = 0
        self.summ_cache = {}
        self.closure_index = {}
        self.var_bounds = {}
        self.bcache = {}
        self.contracts_on = set()
        self.trace_calls = set()     # callee name fragments whose calls (argument values) are recorded in the path log
        self.auto_merge = set()      # function name suffixes whose paths are merged into one summary (autosum.py)
        self.auto_cache = {}
        self.max_blocks = 400000
        self.loop_bound = 64
        from . import summaries
        self.summ = summaries.Summaries(self)

    # ------------------------------------------------------------------ loading
    def load_crate(self, crate, path):
        with open(path) as f:
            text = f.read()
        fns, allocs = parse_mir(text, crate)
        d = self.crates.setdefault(crate, {})
        for fn in fns:
            if fn.kind == 'promoted':
                continue
            if fn.name in d:
                # const fns are printed twice (runtime + const-eval MIR): keep the first
                continue
            d[fn.name] = fn
            last = self.last_seg(fn.name)
            self.bylast.setdefault(last, []).append(fn)
            m = re.search(r'\{closure#\d+\}$', fn.name)
            if m and fn.params:
                cm = re.search(r'\{closure@[^}]*\}', fn.params[0][1])
                if cm:
                    self.closure_index[cm.group(0)] = fn
        self.allocs[crate] = allocs

    @staticmethod
    def last_seg(name):
        depth = 0
        i = len(name) - 1
        while i >= 0:
            c = name[i]
            if c in '>)]}' and not (c == '>' and name[i - 1] in '-='):
                depth += 1
            elif c in '<([{':
                depth -= 1
            elif c == ':' and depth == 0 and i > 0 and name[i - 1] == ':':
                return name[i + 1:]
            i -= 1
        return name

    # ------------------------------------------------------------------ strings / fresh
    def intern(self, s):
        if s not in self.strings:
            i = 1000 + len(self.strings)
            self.strings[s] = i
            self.strings_rev[i] = s
        return self.strings[s]

    def S(self, s):
        return StrV(self.intern(s))

    def fresh(self, prefix='v', sort='int'):
        self.fresh_n += 1
        name = '%s!%d' % (prefix, self.fresh_n)
        return z3.Int(name) if sort == 'int' else z3.Bool(name)

    def opaque_str(self, tag='fmt'):
        self.fresh_n += 1
        return StrV(-self.fresh_n)

    # ------------------------------------------------------------------ interval pre-analysis
    def set_bounds(self, v, lo, hi):
        self.var_bounds[v.decl().name()] = (lo, hi)

    def bounds(self, e):
        """(lo, hi) of an integer term from the registered variable ranges; None = unbounded."""
        if isinstance(e, bool):
            return (int(e), int(e))
        if isinstance(e, int):
            return (e, e)
        eid = e.get_id()
        r = self.bcache.get(eid)
        if r is not None:
            return r[1]
        r = self._bounds(e)
        self.bcache[eid] = (e, r)     # keep the term alive: z3 reuses ast ids of collected terms
        return r

    def _bounds(self, e):
        if z3.is_int_value(e):
            v = e.as_long()
            return (v, v)
        if not z3.is_app(e):
            return (None, None)
        k = e.decl().kind()
        ch = e.children()
        if k == z3.Z3_OP_UNINTERPRETED and not ch:
            return self.var_bounds.get(e.decl().name(), (None, None))
        if k == z3.Z3_OP_ADD:
            lo, hi = 0, 0
            for c in ch:
                a, b = self.bounds(c)
                lo = None if (lo is None or a is None) else lo + a
                hi = None if (hi is None or b is None) else hi + b
            return (lo, hi)
        if k == z3.Z3_OP_SUB:
            a, b = self.bounds(ch[0])
            for c in ch[1:]:
                c1, c2 = self.bounds(c)
                a = None if (a is None or c2 is None) else a - c2
                b = None if (b is None or c1 is None) else b - c1
            return (a, b)
        if k == z3.Z3_OP_UMINUS:
            a, b = self.bounds(ch[0])
            return (None if b is None else -b, None if a is None else -a)
        if k == z3.Z3_OP_MUL:
            lo, hi = 1, 1
            for c in ch:
                a, b = self.bounds(c)
                if lo is None or a is None or b is None:
                    return (None, None)
                cands = [lo * a, lo * b, hi * a, hi * b]
                lo, hi = min(cands), max(cands)
            return (lo, hi)
        if k == z3.Z3_OP_ITE:
            a1, b1 = self.bounds(ch[1])
            a2, b2 = self.bounds(ch[2])
            return (None if (a1 is None or a2 is None) else min(a1, a2),
                    None if (b1 is None or b2 is None) else max(b1, b2))
        return (None, None)

    def quick(self, c):
        """True = valid, False = unsatisfiable, None = undecided (w.r.t. registered ranges only)."""
        if c is True or c is False:
            return c
        if z3.is_true(c):
            return True
        if z3.is_false(c):
            return False
        if not z3.is_app(c):
            return None
        k = c.decl().kind()
        ch = c.children()
        if k == z3.Z3_OP_NOT:
            r = self.quick(ch[0])
            return None if r is None else (not r)
        if k == z3.Z3_OP_AND:
            allt = True
            for x in ch:
                r = self.quick(x)
                if r is False:
                    return False
                if r is None:
                    allt = False
            return True if allt else None
        if k == z3.Z3_OP_OR:
            allf = True
            for x in ch:
                r = self.quick(x)
                if r is True:
                    return True
                if r is None:
                    allf = False
            return False if allf else None
        if k in (z3.Z3_OP_LE, z3.Z3_OP_LT, z3.Z3_OP_GE, z3.Z3_OP_GT, z3.Z3_OP_EQ) and len(ch) == 2 and z3.is_int(ch[0]):
            a1, b1 = self.bounds(ch[0])
            a2, b2 = self.bounds(ch[1])
            if k == z3.Z3_OP_GE:
                a1, b1, a2, b2, k = a2, b2, a1, b1, z3.Z3_OP_LE
            elif k == z3.Z3_OP_GT:
                a1, b1, a2, b2, k = a2, b2, a1, b1, z3.Z3_OP_LT
            if k == z3.Z3_OP_LE:
                if b1 is not None and a2 is not None and b1 <= a2:
                    return True
                if a1 is not None and b2 is not None and a1 > b2:
                    return False
                return None
            if k == z3.Z3_OP_LT:
                if b1 is not None and a2 is not None and b1 < a2:
                    return True
                if a1 is not None and b2 is not None and a1 >= b2:
                    return False
                return None
            if k == z3.Z3_OP_EQ:
                if a1 is not None and b2 is not None and a1 > b2:
                    return False
                if b1 is not None and a2 is not None and b1 < a2:
                    return False
                if a1 is not None and a1 == b1 and a2 == b2 and a1 == a2:
                    return True
                return None
        return None

    # ------------------------------------------------------------------ solver
    def feasible(self, st, cond):
        if cond is True:
            return True
        if cond is False:
            return False
        c = z3.simplify(cond)
        if z3.is_true(c):
            return True
        if z3.is_false(c):
            return False
        qk = self.quick(c)
        if qk is not None:
            self.stats.quick += 1
            return qk
        t0 = time.time()
        pc = st.pc
        ss = self.sstack
        i = 0
        n = min(len(pc), len(ss))
        while i < n and ss[i] is pc[i]:
            i += 1
        for _ in range(len(ss) - i):
            self.solver.pop()
        del ss[i:]
        for c2 in pc[i:]:
            self.solver.push()
            self.solver.add(c2)
            ss.append(c2)
        self.solver.push()
        self.solver.add(c)
        r = self.solver.check()
        self.solver.pop()
        self.stats.feas_queries += 1
        dt = time.time() - t0
        self.stats.solver_s += dt
        if SLOWLOG and dt > 0.3:
            sys.stderr.write('SLOW %.2fs %s pc=%d cond=%s\n' % (dt, r, len(pc), str(c)[:200].replace('\n', ' ')))
        if r == z3.unknown:
            self.stats.feas_unknown += 1
            return True
        return r == z3.sat

    def truth(self, st, b):
        """generator of (state, python bool) for each feasible value of b."""
        if b is True or b is False:
            yield st, b
            return
        if isinstance(b, int) and not is_sym(b):
            yield st, bool(b)
            return
        if z3.is_int(b):
            b = b != 0
        nb = z3.Not(b)
        ft = self.feasible(st, b)
        ff = True if not ft else self.feasible(st, nb)
        if ft and ff:
            self.stats.forks += 1
            st2 = st.clone()
            st2.add(b)
            yield st2, True
            st.add(nb)
            yield st, False
        elif ft:
            st.add(b)
            yield st, True
        elif ff:
            st.add(nb)
            yield st, False

    # ------------------------------------------------------------------ memory
    def resolve(self, st, base, p):
        k = p[0]
        if k == 'local':
            return base + p[1], ()
        if k == 'deref':
            c, path = self.resolve(st, base, p[1])
            r = getpath(st.mem.get(c), path)
            if isinstance(r, Ref):
                return r.cell, r.path
            raise Gap('deref of non-reference %r' % (r,))
        if k == 'field':
            c, path = self.resolve(st, base, p[1])
            return c, path + (('f', p[2]),)
        if k == 'downcast':
            c, path = self.resolve(st, base, p[1])
            return c, path + (('d', p[2]),)
        if k == 'index':
            c, path = self.resolve(st, base, p[1])
            idx = st.mem.get(base + p[2])
            return c, path + (('i', idx),)
        if k == 'cindex':
            c, path = self.resolve(st, base, p[1])
            return c, path + (('i', p[2]),)
        if k == 'cindex_end':
            c, path = self.resolve(st, base, p[1])
            return c, path + (('i', -p[2]),)
        raise Gap('place kind %s' % k)

    def read_place(self, st, base, p):
        if p[0] == 'deref':
            # deref of a Handle (dyn Storage / Api) is the handle itself
            c, path = self.resolve(st, base, p[1])
            r = getpath(st.mem.get(c), path)
            if isinstance(r, Handle) or isinstance(r, StrV) or isinstance(r, BytesV):
                return r
            if isinstance(r, Ref):
                return getpath(st.mem.get(r.cell), r.path)
            raise Gap('deref read of %r' % (r,))
        c, path = self.resolve(st, base, p)
        return getpath(st.mem.get(c), path)

    def write_place(self, st, base, p, v):
        c, path = self.resolve(st, base, p)
        if path:
            st.mem[c] = setpath(st.mem.get(c), path, v)
        else:
            st.mem[c] = v

    def load(self, st, r):
        return getpath(st.mem.get(r.cell), r.path)

    def store(self, st, r, v):
        if r.path:
            st.mem[r.cell] = setpath(st.mem.get(r.cell), r.path, v)
        else:
            st.mem[r.cell] = v

    def val(self, st, v):
        """strip references."""
        while isinstance(v, Ref):
            v = self.load(st, v)
        return v

    # ------------------------------------------------------------------ constants
    def eval_const(self, st, fn, c):
        k = c[0]
        if k == 'int':
            return c[1]
        if k == 'bool':
            return c[1]
        if k == 'unit':
            return UNIT
        if k == 'str':
            return self.S(c[1])
        if k == 'bytes':
            return BytesV(c[1])
        if k == 'char':
            return ord(c[1])
        if k == 'zst':
            ty = c[1]
            if ty.startswith('{closure@'):
                cf = self.closure_index.get(ty)
                if cf is None:
                    raise Gap('closure body not found: ' + ty)
                return Closure(cf, (), ty)
            if ty.startswith('fn('):
                return FnPtr(ty)
            if ty.startswith('PhantomData') or ty.startswith('std::marker::PhantomData'):
                return UNIT
            return self.named_fn_or_unit(fn, ty)
        if k == 'fnitem':
            return FnPtr(c[1])
        if k == 'promoted':
            owner = fn
            pf = owner.promoted.get(c[1])
            if pf is None:
                raise Gap('promoted[%d] of %s not found' % (c[1], fn.name))
            return self.eval_item(st, pf)
        if k == 'alloc':
            name = self.allocs.get(fn.crate, {}).get(c[1])
            if name is None:
                raise Gap('alloc constant %s without static name' % c[1])
            sf = self.find_item(fn.crate, name)
            if sf is None:
                raise Gap('static %s not found' % name)
            v = self.eval_item(st, sf)
            # type is &T where T is the static's type: a reference to the static
            return Ref(st.new_cell(v), ())
        if k == 'named':
            name = c[1]
            sf = self.find_item(fn.crate, name)
            if sf is not None:
                return self.eval_item(st, sf)
            v = self.summ.named_const(st, fn, name)
            if v is not None:
                return v
            raise Gap('named constant ' + name)
        raise Gap('const kind ' + k)

    def named_fn_or_unit(self, fn, ty):
        # ZeroSized function items (passed as fn values, e.g. map(Into::into))
        return FnPtr(ty)

    def find_item(self, crate, name):
        name = strip_generics(name)
        d = self.crates.get(crate, {})
        f = d.get(name)
        if f is not None and f.kind in ('const', 'static'):
            return f
        # suffix match
        cands = [x for x in self.bylast.get(self.last_seg(name), []) if x.kind in ('const', 'static')]
        own = [x for x in cands if x.crate == crate and (x.name == name or x.name.endswith('::' + name)
                                                         or name.endswith('::' + x.name))]
        if own:
            return own[0]
        segs = name.split('::')
        if len(segs) > 1:
            c0 = segs[0]
            oth = [x for x in cands if self.crate_alias(x.crate) == c0 or x.crate == c0]
            oth = [x for x in oth if name.endswith('::' + x.name) or x.name.endswith(segs[-1])]
            if oth:
                return oth[0]
        oth = [x for x in cands if x.name == name or name.endswith('::' + x.name) or x.name.endswith('::' + name)]
        if len(oth) >= 1:
            return oth[0]
        return None

    CRATE_ALIASES = {}

    def crate_alias(self, crate):
        return self.CRATE_ALIASES.get(crate, crate)

    def eval_item(self, st, f):
        outs = list(self.call_fn(st, f, []))
        if len(outs) != 1 or isinstance(outs[0][1], Panic):
            raise Gap('constant item %s did not evaluate to a single value' % f.name)
        return outs[0][1]

    # ------------------------------------------------------------------ operands / rvalues
    def operand(self, st, fn, base, op):
        if op[0] == 'place':
            return self.read_place(st, base, op[1])
        return self.eval_const(st, fn, op[1])

    def int_binop(self, st, op, x, y, ty):
        if op in ('Add', 'AddUnchecked'):
            return x + y
        if op in ('Sub', 'SubUnchecked'):
            return x - y
        if op in ('Mul', 'MulUnchecked'):
            return x * y
        if op in ('AddWithOverflow', 'SubWithOverflow', 'MulWithOverflow'):
            r = x + y if op[0] == 'A' else (x - y if op[0] == 'S' else x * y)
            lo, hi = INT_RANGE.get(ty, (None, None))
            if lo is None:
                raise Gap('overflow op on type %s' % ty)
            if is_sym(r):
                ov = z3.Or(r > hi, r < lo)
            else:
                ov = r > hi or r < lo
            return Agg('()', (r, ov))
        if op == 'Div':
            return self.idiv(st, x, y)[0]
        if op == 'Rem':
            return self.idiv(st, x, y)[1]
        if op in ('Eq', 'Ne', 'Lt', 'Le', 'Gt', 'Ge'):
            if isinstance(x, (StrV,)) or isinstance(y, (StrV,)):
                x, y = x.id, y.id
            if is_sym(x) and z3.is_bool(x) or is_sym(y) and z3.is_bool(y) or isinstance(x, bool) or isinstance(y, bool):
                x, y = self.as_bool(x), self.as_bool(y)
                if op == 'Eq':
                    return x == y
                if op == 'Ne':
                    return (x != y) if not (isinstance(x, bool) and isinstance(y, bool)) else (x != y)
                x, y = self.as_int(x), self.as_int(y)
            return {'Eq': lambda: x == y, 'Ne': lambda: x != y, 'Lt': lambda: x < y, 'Le': lambda: x <= y,
                    'Gt': lambda: x > y, 'Ge': lambda: x >= y}[op]()
        if op == 'Cmp':
            if is_sym(x) or is_sym(y):
                return SymEnum(z3.If(x < y, 0, z3.If(x == y, 1, 2)),
                               (Agg('Ordering', (), 0, 'Less'), Agg('Ordering', (), 1, 'Equal'),
                                Agg('Ordering', (), 2, 'Greater')))
            i = 0 if x < y else (1 if x == y else 2)
            return Agg('Ordering', (), i, ('Less', 'Equal', 'Greater')[i])
        if op in ('BitAnd', 'BitOr', 'BitXor', 'Shl', 'Shr', 'ShlUnchecked', 'ShrUnchecked'):
            if isinstance(x, bool) or isinstance(y, bool) or (is_sym(x) and z3.is_bool(x)) or (is_sym(y) and z3.is_bool(y)):
                x, y = self.as_bool(x), self.as_bool(y)
                if op == 'BitAnd':
                    return (x and y) if (isinstance(x, bool) and isinstance(y, bool)) else z3.And(x, y)
                if op == 'BitOr':
                    return (x or y) if (isinstance(x, bool) and isinstance(y, bool)) else z3.Or(x, y)
                if op == 'BitXor':
                    return (x != y) if (isinstance(x, bool) and isinstance(y, bool)) else z3.Xor(x, y)
            if is_sym(x) or is_sym(y):
                raise Gap('bit operation %s on symbolic integers' % op)
            lo, hi = INT_RANGE.get(ty, (0, U128_MAX))
            if op == 'BitAnd':
                return x & y
            if op == 'BitOr':
                return x | y
            if op == 'BitXor':
                return x ^ y
            if op.startswith('Shl'):
                return (x << y) & hi if lo == 0 else x << y
            return x >> y
        raise Gap('binop ' + op)

    @staticmethod
    def as_bool(x):
        if isinstance(x, bool):
            return x
        if isinstance(x, int):
            return bool(x)
        if z3.is_bool(x):
            return x
        return x != 0

    @staticmethod
    def as_int(x):
        if isinstance(x, bool):
            return int(x)
        if isinstance(x, int):
            return x
        if z3.is_bool(x):
            return z3.If(x, 1, 0)
        return x

    def idiv(self, st, x, y):
        """floor division of non-negative integers with the division lemma (never z3 div)."""
        if not is_sym(x) and not is_sym(y):
            if y == 0:
                raise Gap('concrete division by zero reached idiv')
            return x // y, x % y
        # exact simplifications that avoid a fresh quotient
        if not is_sym(y) and is_sym(x):
            xs = z3.simplify(x)
            if z3.is_app(xs) and xs.decl().kind() == z3.Z3_OP_MUL:
                ch = xs.children()
                if len(ch) == 2 and z3.is_int_value(ch[0]) and ch[0].as_long() % y == 0:
                    return (ch[0].as_long() // y) * ch[1], 0
        # the same division on the same path yields the same quotient (no fresh variables)
        xs_ = z3.simplify(x) if is_sym(x) else x
        ys_ = z3.simplify(y) if is_sym(y) else y
        for (x0, y0, q0, r0) in st.ghost.get('divs', ()):
            if same_term(x0, xs_) and same_term(y0, ys_):
                return q0, r0
        q = self.fresh('q')
        r = self.fresh('r')
        st.add(z3.And(x == q * y + r, r >= 0, r < y, q >= 0))
        x, y = xs_, ys_
        xl, xh = self.bounds(x)
        yl, yh = self.bounds(y)
        qh = None
        if xh is not None:
            qh = xh // max(yl, 1) if yl is not None else xh
        self.var_bounds[q.decl().name()] = (0, qh)
        self.var_bounds[r.decl().name()] = (0, None if yh is None else yh - 1)
        st.ghost['divs'] = st.ghost.get('divs', ()) + ((x, y, q, r),)
        return q, r

    def sem_div_lookup(self, st, xs_, ys_):
        """a division already made on this path whose operands are *provably* equal (under the path condition) to xs_, ys_:
        the spec side then talks about the very quotient the code computed (no nonlinear uniqueness argument needed)."""
        divs = st.ghost.get('divs', ())
        if not divs:
            return None
        s = z3.Solver()
        s.set('timeout', 4000)
        for c in st.pc:
            if c is not True:
                s.add(c)
        if s.check() != z3.sat:
            return None
        m = s.model()

        def ev(t):
            return t if isinstance(t, int) else m.eval(t, model_completion=True).as_long()
        try:
            vx, vy = ev(xs_), ev(ys_)
        except Exception:   # noqa
            return None
        for (x0, y0, q0, r0) in divs:
            try:
                if ev(x0) != vx or ev(y0) != vy:
                    continue
            except Exception:   # noqa
                continue
            s.push()
            s.add(z3.Or(x0 != xs_, y0 != ys_))
            r = s.check()
            s.pop()
            if r == z3.unsat:
                return q0
        return None

    def gdiv(self, st, x, y, semantic=False):
        """guarded floor division that never constrains the path: q = floor(x/y) when y > 0, else 0 (memoised)."""
        if isinstance(y, int):
            if y > 0:
                if semantic and is_sym(x):
                    xs_ = z3.simplify(x)
                    hit = [q0 for (x0, y0, q0, r0) in st.ghost.get('divs', ()) if same_term(x0, xs_) and same_term(y0, y)]
                    if not hit:
                        q0 = self.sem_div_lookup(st, xs_, y)
                        if q0 is not None:
                            return q0
                return self.idiv(st, x, y)[0]
            return 0
        xs_ = z3.simplify(x) if is_sym(x) else x
        ys_ = z3.simplify(y) if is_sym(y) else y
        for (x0, y0, q0, r0) in st.ghost.get('divs', ()):
            if same_term(x0, xs_) and same_term(y0, ys_):
                return q0
        if semantic:
            q0 = self.sem_div_lookup(st, xs_, ys_)
            if q0 is not None:
                return z3.If(ys_ > 0, q0, 0)
        q = self.fresh('gq')
        r = self.fresh('gr')
        st.add(z3.And(z3.Implies(ys_ > 0, z3.And(xs_ == q * ys_ + r, r >= 0, r < ys_)), z3.Implies(ys_ <= 0, q == 0), q >= 0))
        xl, xh = self.bounds(xs_)
        self.var_bounds[q.decl().name()] = (0, xh)
        st.ghost['divs'] = st.ghost.get('divs', ()) + ((xs_, ys_, q, r),)
        return q

    def rvalue(self, st, fn, base, rv, dest_ty=None):
        k = rv[0]
        if k == 'use':
            return self.operand(st, fn, base, rv[1])
        if k == 'ref':
            p = rv[1]
            if p[0] == 'deref':
                # reborrow: &(*x) -- keep handles / thin values as they are
                c, path = self.resolve(st, base, p[1])
                r = getpath(st.mem.get(c), path)
                if isinstance(r, (Handle, StrV, BytesV, Ref)):
                    return r
                raise Gap('reborrow of %r' % (r,))
            c, path = self.resolve(st, base, p)
            return Ref(c, path)
        if k == 'binop':
            x = self.operand(st, fn, base, rv[2])
            y = self.operand(st, fn, base, rv[3])
            return self.int_binop(st, rv[1], x, y, rv[4])
        if k == 'unop':
            x = self.operand(st, fn, base, rv[2])
            if rv[1] == 'Not':
                if isinstance(x, bool):
                    return not x
                if is_sym(x) and z3.is_bool(x):
                    return z3.Not(x)
                if isinstance(x, int):
                    lo, hi = INT_RANGE.get(rv[3], (0, U128_MAX))
                    return hi - x if lo == 0 else ~x
                raise Gap('Not on symbolic int')
            if rv[1] == 'Neg':
                return -x
            if rv[1] == 'PtrMetadata':
                v = self.val(st, x)
                return self.length(v)
        if k == 'discr':
            v = self.read_place(st, base, rv[1])
            if isinstance(v, SymEnum):
                raise Gap('discriminant of un-concretised symbolic enum outside a plain statement')
            if isinstance(v, Agg) and v.variant is not None:
                return v.variant
            raise Gap('discriminant of %r' % (v,))
        if k == 'len':
            return self.length(self.read_place(st, base, rv[1]))
        if k == 'cast':
            x = self.operand(st, fn, base, rv[1])
            kind = rv[3]
            if kind == 'IntToInt':
                tgt = rv[2].strip()
                if isinstance(x, bool):
                    return int(x)
                if is_sym(x) and z3.is_bool(x):
                    return z3.If(x, 1, 0)
                lo, hi = INT_RANGE.get(tgt, (None, None))
                if lo is None:
                    raise Gap('IntToInt to ' + tgt)
                if is_sym(x):
                    src = self.operand_type(fn, rv[1])
                    slo, shi = INT_RANGE.get(src, (None, None))
                    if slo is not None and slo >= lo and shi <= hi:
                        return x
                    if slo is not None and slo >= 0 and lo == 0:
                        # truncation mod 2^k
                        q = self.fresh('tq')
                        r = self.fresh('tr')
                        st.add(z3.And(x == q * (hi + 1) + r, r >= 0, r <= hi, q >= 0))
                        return r
                    raise Gap('symbolic IntToInt %s -> %s' % (src, tgt))
                if isinstance(x, Agg) and x.variant is not None:
                    return x.variant
                if lo <= x <= hi:
                    return x
                return (x - lo) % (hi - lo + 1) + lo
            if kind.startswith('PointerCoercion') or kind in ('Transmute', 'PtrToPtr'):
                return x
            raise Gap('cast kind ' + kind)
        if k == 'tuple':
            return Agg('()', [self.operand(st, fn, base, o) for o in rv[1]])
        if k == 'array':
            return Agg('[]', [self.operand(st, fn, base, o) for o in rv[1]])
        if k == 'repeat':
            m = re.match(r'const (\d+)_usize|(\d+)', rv[2])
            n = int(m.group(1) or m.group(2))
            v = self.operand(st, fn, base, rv[1])
            return Agg('[]', [v] * n)
        if k == 'closure':
            cf = self.closure_index.get(rv[1])
            if cf is None:
                raise Gap('closure body not found: ' + rv[1])
            return Closure(cf, [self.operand(st, fn, base, o) for o in rv[2]], rv[1])
        if k == 'adt':
            return self.make_adt(st, fn, base, rv, dest_ty)
        raise Gap('rvalue kind ' + k)

    def operand_type(self, fn, op):
        if op[0] == 'place':
            p = op[1]
            if p[0] == 'local':
                return fn.locals.get(p[1])
            if p[0] == 'field':
                return p[3]
        if op[0] == 'const' and op[1][0] == 'int':
            return op[1][2]
        return None

    def length(self, v):
        if isinstance(v, VecV):
            return len(v.items)
        if isinstance(v, BytesV):
            return len(v.b)
        if isinstance(v, Agg) and v.ty == '[]':
            return len(v.fields)
        raise Gap('length of %r' % (v,))

    def make_adt(self, st, fn, base, rv, dest_ty):
        name = rv[1]
        ops = [self.operand(st, fn, base, o) for o in rv[2]]
        nm = strip_generics(name)
        segs = nm.split('::')
        last = segs[-1]
        if last == 'U256' and len(ops) == 1 and isinstance(ops[0], Agg) and ops[0].ty == '[]' and len(ops[0].fields) == 4:
            # bigint::U256([u64; 4]) little-endian limbs -> one mathematical integer
            v = 0
            for i, limb in enumerate(ops[0].fields):
                v = v + limb * (2 ** (64 * i))
            return Agg('U256', (v,))
        # try enum variant through the destination type first
        td = self.types.lookup(dest_ty, fn.crate) if dest_ty else None
        if td is not None and td.kind == 'enum':
            vi = td.variant_index(last)
            if vi is not None:
                return Agg(td.name, ops, vi, last, td=td)
        if td is not None and td.kind == 'struct' and td.name == last:
            return Agg(td.name, ops, td=td)
        # Enum::Variant path
        if len(segs) >= 2:
            td2 = self.types.lookup('::'.join(segs[:-1]), fn.crate)
            if td2 is not None and td2.kind == 'enum':
                vi = td2.variant_index(last)
                if vi is not None:
                    return Agg(td2.name, ops, vi, last, td=td2)
        td3 = self.types.lookup(nm, fn.crate)
        if td3 is not None and td3.kind == 'struct':
            return Agg(td3.name, ops, td=td3)
        if dest_ty is not None:
            b = base_name(dest_ty)
            if b is not None and b == last:
                return Agg(last, ops)
        # variant name only, search all enums
        hits = []
        for d in self.types.defs:
            if d.kind == 'enum' and d.variant_index(last) is not None:
                hits.append(d)
        if len(hits) == 1:
            return Agg(hits[0].name, ops, hits[0].variant_index(last), last, td=hits[0])
        raise Gap('cannot type aggregate %s (dest %s)' % (name, dest_ty))

    # ------------------------------------------------------------------ statements
    def place_type(self, fn, p):
        if p[0] == 'local':
            return fn.locals.get(p[1])
        if p[0] == 'field':
            return p[3]
        return None

    def exec_stmt(self, st, fn, base, s):
        k = s[0]
        if k == 'assign':
            rv = s[2]
            v = self.rvalue(st, fn, base, rv, self.place_type(fn, s[1]) if rv[0] == 'adt' else None)
            self.write_place(st, base, s[1], v)
            return
        if k == 'setdiscr':
            v = self.read_place(st, base, s[1])
            ty = self.place_type(fn, s[1])
            td = self.types.lookup(ty, fn.crate) if ty else None
            if td is None or td.kind != 'enum':
                raise Gap('SetDiscriminant on %s' % ty)
            self.write_place(st, base, s[1], Agg(td.name, (), s[2], td.variants[s[2]][0]))
            return
        if k == 'gap':
            raise Gap(s[1])
        raise Gap('statement ' + k)

    # ------------------------------------------------------------------ execution
    def call_fn(self, st, fn, args):
        """generator of (state, return value | Panic)."""
        self.stats.fns.add(fn.crate + '::' + fn.name)
        nloc = (max(fn.locals) if fn.locals else 0) + 1
        base = st.alloc(nloc)
        for i, a in enumerate(args):
            st.mem[base + 1 + i] = a
        st.depth += 1
        if st.depth > 200:
            raise Gap('call depth > 200 in ' + fn.name)
        for st2, v in self.run(st, fn, base, 0, {}):
            st2.depth -= 1
            yield st2, v

    def run(self, st, fn, base, bb, visits, si=0):
        stats = self.stats
        while True:
            stats.blocks += 1
            if stats.blocks > self.max_blocks:
                raise Gap('block budget exceeded (%d)' % self.max_blocks)
            if si == 0:
                vc = visits.get(bb, 0) + 1
                if vc > self.loop_bound:
                    raise Gap('UNWIND: block bb%d of %s visited more than %d times on one path'
                              % (bb, fn.name, self.loop_bound))
                visits[bb] = vc
            stmts, term = finalize_block(fn, bb)
            n = len(stmts)
            idx = si
            si = 0
            forked = False
            while idx < n:
                s = stmts[idx]
                if s[0] == 'assign' and s[2][0] == 'discr':
                    v = self.read_place(st, base, s[2][1])
                    if isinstance(v, SymEnum):
                        # lazily concretise the variant: fork, rewrite the place, re-run from this statement
                        outs = [(i, alt) for i, alt in enumerate(v.alts) if self.feasible(st, v.tag == i)]
                        if len(outs) > 1:
                            stats.forks += len(outs) - 1
                        for k2, (i, alt) in enumerate(outs):
                            st2 = st if k2 == len(outs) - 1 else st.clone()
                            st2.add(v.tag == i)
                            self.write_place(st2, base, s[2][1], alt)
                            yield from self.run(st2, fn, base, bb, dict(visits), idx)
                        forked = True
                        break
                self.exec_stmt(st, fn, base, s)
                idx += 1
            if forked:
                return
            k = term[0]
            if k == 'goto':
                bb = term[1]
                continue
            if k == 'return':
                yield st, st.mem.get(base)
                return
            if k == 'switch':
                v = self.operand(st, fn, base, term[1])
                if isinstance(v, bool):
                    v = int(v)
                if isinstance(v, Agg) and v.variant is not None and not v.fields:
                    v = v.variant
                if isinstance(v, int):
                    tgt = term[3]
                    for kk, t in term[2]:
                        if kk == v:
                            tgt = t
                            break
                    if tgt is None:
                        raise Gap('switchInt without target')
                    bb = tgt
                    continue
                if not is_sym(v):
                    raise Gap('switchInt on %r' % (v,))
                conds = []
                negs = []
                isb = z3.is_bool(v)
                for kk, t in term[2]:
                    if isb:
                        c = z3.Not(v) if kk == 0 else v
                    else:
                        c = v == kk
                    conds.append((c, t))
                    negs.append(z3.Not(c))
                if term[3] is not None:
                    conds.append((z3.And(*negs) if len(negs) > 1 else negs[0], term[3]))
                feas = [(c, t) for c, t in conds if self.feasible(st, c)]
                if not feas:
                    return
                if len(feas) > 1:
                    stats.forks += len(feas) - 1
                for c, t in feas[:-1]:
                    st2 = st.clone()
                    st2.add(c)
                    yield from self.run(st2, fn, base, t, dict(visits))
                c, t = feas[-1]
                st.add(c)
                bb = t
                continue
            if k == 'assert':
                v = self.operand(st, fn, base, term[1])
                if term[2]:
                    v = (not v) if isinstance(v, bool) else z3.Not(v)
                if isinstance(v, bool):
                    if not v:
                        yield st, Panic('assert: ' + term[3])
                        return
                    bb = term[4]
                    continue
                bad = z3.Not(v)
                if self.feasible(st, bad):
                    st2 = st.clone()
                    st2.add(bad)
                    yield st2, Panic('assert: ' + term[3])
                if not self.feasible(st, v):
                    return
                st.add(v)
                bb = term[4]
                continue
            if k == 'call':
                dest, callee, argops, ret = term[1], term[2], term[3], term[4]
                args = [self.operand(st, fn, base, a) for a in argops]
                gen = self.dispatch(st, fn, callee, args, self.place_type(fn, dest) if dest else None)
                first = next(gen, None)
                if first is None:
                    return
                second = next(gen, None)
                if second is None:
                    st, v = first
                    if isinstance(v, Panic):
                        yield st, v
                        return
                    if ret is None:
                        yield st, Panic('diverging call ' + callee[:60])
                        return
                    if dest is not None:
                        self.write_place(st, base, dest, v)
                    bb = ret
                    continue
                for st2, v in itertools.chain([first, second], gen):
                    if isinstance(v, Panic):
                        yield st2, v
                        continue
                    if ret is None:
                        yield st2, Panic('diverging call ' + callee[:60])
                        continue
                    if dest is not None:
                        self.write_place(st2, base, dest, v)
                    yield from self.run(st2, fn, base, ret, dict(visits))
                return
            if k == 'unreachable':
                raise Gap('reached unreachable in %s bb%d' % (fn.name, bb))
            if k == 'resume':
                raise Gap('reached resume in %s bb%d' % (fn.name, bb))
            if k == 'gap':
                raise Gap(term[1])
            raise Gap('terminator ' + k)

    # ------------------------------------------------------------------ calls
    def dispatch(self, st, fn, callee, args, dest_ty):
        if self.trace_calls:
            for t in self.trace_calls:
                if t in callee:
                    st.log = st.log + (('call', t, tuple(self.val(st, a) if isinstance(a, Ref) else a for a in args)),)
        h = self.summ.lookup(callee)
        if h is not None:
            self.stats.summaries.add(h[0])
            yield from h[1](st, fn, callee, args, dest_ty)
            return
        target = self.resolve_fn(st, fn, callee, args)
        if target is None:
            raise Gap('no summary and no MIR body for callee: %s  (in %s::%s)' % (callee, fn.crate, fn.name))
        if self.auto_merge and self.merge_wanted(target):
            from . import autosum
            vals = [self.val(st, a) if isinstance(a, Ref) else a for a in args]
            key = (target.crate, target.name, repr([type(v).__name__ if not isinstance(v, Agg) else v.ty for v in vals]))
            S = self.auto_cache.get(key)
            if S is None:
                S = autosum.build(self, target, vals)
                self.auto_cache[key] = S
                self.stats.fns.add('%s::%s [merged: %d paths, %d panic paths]' % (target.crate, target.name, len(S.ok), len(S.panic)))
            yield from autosum.instantiate(self, st, S, vals)
            return
        yield from self.call_fn(st, target, args)

    def argty(self, st, v):
        v = self.val(st, v)
        if isinstance(v, Agg):
            return v.ty
        if isinstance(v, Closure):
            return v.ty
        if isinstance(v, StrV):
            return 'String'
        if isinstance(v, VecV):
            return 'Vec'
        if isinstance(v, (int,)) or is_sym(v):
            return 'int'
        if isinstance(v, Handle):
            return v.kind
        if isinstance(v, SymEnum):
            return v.alts[0].ty
        return type(v).__name__

    GENERIC_TY = re.compile(r'^(impl .*|[A-Z]\w?|Self|__\w+)$')
    INT_TYS = set(INT_RANGE) | {'bool'}

    def param_compat(self, pty, aty):
        b = base_name(pty)
        if b is None:
            return 1
        if self.GENERIC_TY.match(b):
            return 1
        if b in self.INT_TYS:
            return 2 if aty == 'int' else 0
        if b in ('str', 'String'):
            return 2 if aty == 'String' else 0
        if b == aty:
            return 3
        if b in ('()', '[]'):
            return 2 if aty == b else 0
        if b == 'dyn' or pty.strip().startswith(('&dyn', '&mut dyn', 'dyn')):
            return 1
        return 0

    def resolve_fn(self, st, fn, callee, args):
        key = None
        c = strip_generics(callee)
        c = c.replace("<'_>", '')
        selfty = None
        trait_args = []
        if c.startswith('<'):
            e = skip_balanced(c, 0)
            inner = c[1:e - 1]
            rest = c[e:]
            if ' as ' in inner:
                k = inner.index(' as ')
                selfty = inner[:k]
                trait = inner[k + 4:]
                trait_args = typedefs.generic_args(trait)
            else:
                selfty = inner
            method = rest.lstrip(':')
        else:
            segs = c.split('::')
            method = segs[-1]
            # exact / suffix match for free functions
            d = self.crates.get(fn.crate, {})
            f = d.get(c)
            if f is not None and f.kind == 'fn':
                return f
            cands = [x for x in self.bylast.get(method, []) if x.kind == 'fn' and '<impl at' not in x.name]
            if len(segs) > 1 and segs[0] in self.crates and segs[0] != fn.crate:
                # explicitly crate-qualified path: only that crate
                c0 = segs[0]
                rest = '::'.join(segs[1:])
                hit = [x for x in cands if x.crate == c0 and (x.name == rest or x.name.endswith('::' + rest)
                                                              or rest.endswith('::' + x.name))]
                if len(hit) == 1:
                    return hit[0]
                if len(hit) > 1:
                    raise Gap('ambiguous callee %s: %s' % (callee, hit))
                cands = []          # not a free function of that crate: maybe an inherent/impl method (below)
            hit = [x for x in cands if x.crate == fn.crate and (x.name.endswith('::' + c) or c.endswith('::' + x.name))]
            if len(hit) == 1:
                return hit[0]
            if len(segs) > 1:
                c0 = segs[0]
                rest = '::'.join(segs[1:])
                hit = [x for x in cands if x.crate == c0 and (x.name == rest or x.name.endswith('::' + rest)
                                                              or rest.endswith('::' + x.name))]
                if len(hit) == 1:
                    return hit[0]
            hit = [x for x in cands if x.name == c or x.name.endswith('::' + c) or c.endswith('::' + x.name)]
            if len(hit) == 1:
                return hit[0]
            if len(hit) > 1:
                own = [x for x in hit if x.crate == fn.crate]
                if len(own) == 1:
                    return own[0]
                from .engine import DEPS
                dep = [x for x in hit if x.crate in DEPS.get(fn.crate, [])]
                if len(dep) == 1:
                    return dep[0]
                raise Gap('ambiguous callee %s: %s' % (callee, hit))
            if len(segs) >= 2 and segs[-2][:1].isupper():
                selfty = '::'.join(segs[:-1])
        if selfty is None:
            return None
        sb = base_name(selfty)
        cands = [x for x in self.bylast.get(method, []) if x.kind == 'fn' and '<impl at' in x.name and x.nargs == len(args)]
        best = []
        atys = [self.argty(st, a) for a in args]
        for x in cands:
            score = 0
            okc = True
            for (loc, pty), aty in zip(x.params, atys):
                s = self.param_compat(pty, aty)
                if s == 0:
                    okc = False
                    break
                score += s
            if not okc:
                continue
            rb = base_name(x.ret)
            involved = [base_name(p[1]) for p in x.params] + [rb]
            if sb is not None and not self.GENERIC_TY.match(sb) and sb not in self.INT_TYS:
                if sb not in involved and 'Self' not in involved:
                    continue
                score += 2
            if sb in self.INT_TYS and method in ('from', 'into', 'try_from'):
                if rb != sb and base_name(x.params[0][1]) != sb:
                    continue
            if method in ('from', 'default', 'zero', 'one', 'new') and sb is not None and rb is not None:
                if rb != sb and rb != 'Self' and not (rb in ('Result', 'Option')):
                    continue
            if trait_args and method in ('from',):
                tb = base_name(trait_args[0])
                if tb is not None and x.params and base_name(x.params[0][1]) not in (tb, None) \
                        and not self.GENERIC_TY.match(base_name(x.params[0][1]) or 'T'):
                    continue
            best.append((score, x))
        if not best:
            return None
        best.sort(key=lambda t: -t[0])
        if len(best) > 1 and best[0][0] == best[1][0]:
            same = [b for b in best if b[0] == best[0][0]]
            own = [b for b in same if b[1].crate == fn.crate]
            if len(own) == 1:
                return own[0][1]
            raise Gap('ambiguous impl callee %s: %s' % (callee, [b[1] for b in same]))
        return best[0][1]

    def merge_wanted(self, target):
        if target.name in getattr(self, 'no_merge_fn', ()):
            return False
        if any(pt.lstrip().startswith('&mut') for _, pt in target.params):
            return False
        for x in self.auto_merge:
            if x.endswith(':*'):
                if target.crate == x[:-2] and target.params and '{closure' not in target.name:
                    return True
            elif target.name.endswith(x):
                return True
        return False

    # helper used by summaries to call closures / fn pointers
    def call_callable(self, st, f, args):
        f = self.val(st, f) if isinstance(f, Ref) else f
        if isinstance(f, Closure):
            c = st.new_cell(f)
            yield from self.call_fn(st, f.fn, [Ref(c, ())] + list(args)) if self.closure_by_ref(f.fn) else \
                self.call_fn(st, f.fn, [f] + list(args))
            return
        if isinstance(f, FnPtr):
            name = f.name
            m = re.match(r'fn\(.*\) -> .* \{(.*)\}$', name)
            if m:
                name = m.group(1)
            yield from self.dispatch(st, None_fn, name, list(args), None)
            return
        raise Gap('call of non-callable %r' % (f,))

    @staticmethod
    def closure_by_ref(cf):
        return cf.params and cf.params[0][1].lstrip().startswith('&')


class _NoneFn:
    crate = ''
    name = '<fnptr>'
    locals = {}
    promoted = {}


None_fn = _NoneFn()

