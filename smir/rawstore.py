# Raw storage encoding for replay: SMIR store entries -> (key bytes, JSON value) pairs as the real
# contracts lay them out (cw-storage-plus / cosmwasm-storage key formats, MockApi canonical addresses).
import base64
import json

from .values import *   # noqa
from .env import lp
from . import tojson


def canonical(human):
    """cosmwasm-std 1.5 MockApi::addr_canonicalize"""
    out = list(human.lower().encode())
    if len(out) < 3 or len(out) > 90:
        raise ValueError('address length not supported by MockApi: %r' % human)
    out += [0] * (90 - len(out))
    rot = sum(out) % 90
    out = out[rot:] + out[:rot]
    for _ in range(10):
        mid = len(out) // 2
        left, right = out[:mid], out[mid:]
        nxt = []
        for i in range(mid):
            nxt.append(right[i])
            nxt.append(left[i])
        out = nxt
    return bytes(out)


def b64(b):
    return base64.b64encode(b).decode()


# key part codecs per (contract, family)
def part_codec(contract, fam):
    kind, ns = fam[0], fam[1]
    if kind == 'M':
        table = {
            ('reward', b'holders'): ['caddr'],
            ('registry', b'validators_registry'): ['str'],
            ('bsei', b'balance'): ['caddr'], ('bsei', b'allowance'): ['caddr', 'caddr'],
            ('stsei', b'balance'): ['str'], ('stsei', b'allowance'): ['str', 'str'], ('stsei', b'allowance_spender'): ['str', 'str'],
        }
        return table.get((contract, ns))
    if kind == 'B':
        return ['json_str', 'json_u64']
    if kind == 'P':
        return ['be64']
    return []


class RawTemplate:
    """storage template: list of (family, key part templates, value template, present template)"""

    def __init__(self, I, contract, crate):
        self.I = I
        self.contract = contract
        self.T = tojson.Templ(I, crate)
        self.T.caddr_raw = True
        self.items = []

    def add_store(self, store):
        for e in store.entries:
            parts = []
            for t in e.key:
                if t[0] == 's':
                    parts.append(self.T.leaf(t[1], 'str') if not isinstance(t[1], int) else {'$str': t[1]})
                elif t[0] == 'n':
                    parts.append(self.T.leaf(t[1], 'int') if not isinstance(t[1], int) else t[1])
                else:
                    parts.append({'$bytes': b64(t[1])})
            pres = e.present if isinstance(e.present, bool) else self.T.leaf(e.present, 'bool')
            self.items.append({'fam': [e.fam[0], b64(e.fam[1])], 'key': parts, 'value': self.T.value(e.val), 'present': pres})
        return self

    def to_json(self):
        return {'contract': self.contract, 'items': self.items}


def encode_storage(tmpl, model):
    """instantiate a RawTemplate json under a model -> [[key_b64, value_b64]]"""
    contract = tmpl['contract']
    out = []
    for it in tmpl['items']:
        pres = tojson.instantiate(it['present'], model)
        if not pres:
            continue
        fam = (it['fam'][0], base64.b64decode(it['fam'][1]))
        parts = [tojson.instantiate(p, model) for p in it['key']]
        val = tojson.instantiate(it['value'], model)
        key = raw_key(contract, fam, parts)
        out.append([b64(key), b64(json.dumps(val).encode())])
    return out


def enc_part(kind, p):
    if kind == 'caddr':
        return canonical(p)
    if kind == 'str':
        return p.encode()
    if kind == 'json_str':
        return json.dumps(p).encode()
    if kind == 'json_u64':
        return str(int(p)).encode()
    if kind == 'be64':
        return int(p).to_bytes(8, 'big')
    raise ValueError(kind)


def raw_key(contract, fam, parts):
    kind, ns = fam
    if kind == 'K':
        return ns
    codec = part_codec(contract, fam)
    if codec is None or len(codec) != len(parts):
        raise ValueError('no key codec for %s %r with %d parts' % (contract, fam, len(parts)))
    enc = [enc_part(k, p) for k, p in zip(codec, parts)]
    if kind == 'M':
        key = lp(ns)
        for e in enc[:-1]:
            key += lp(e)
        return key + enc[-1]
    if kind == 'B':
        key = lp(ns)
        for e in enc[:-1]:
            key += lp(e)
        return key + enc[-1]
    if kind == 'P':
        return lp(ns) + enc[0]
    raise ValueError(kind)


def decode_storage(pairs):
    """[[k_b64, v_b64]] -> dict raw key bytes -> parsed JSON (or raw bytes)"""
    out = {}
    for k, v in pairs:
        kb = base64.b64decode(k)
        vb = base64.b64decode(v)
        try:
            out[kb] = json.loads(vb)
        except Exception:   # noqa
            out[kb] = vb
    return out
