#!/bin/bash
# run every registered check (quick tier by default) and summarise
cd "$(dirname "$0")"
tier=${1:-quick}
for id in $(python3 -c "import json;print(' '.join(c['property_id'] for c in json.load(open('MANIFEST.json'))['checks']))"); do
  start=$(date +%s)
  out=$(./check $id --tier $tier 2>&1 | grep -v '^WARNING')
  rc=$?
  echo "$out" | grep -E "tier=|VIOLATION|UNKNOWN|GAP|VACUITY|MISMATCH|UNAVAILABLE|KNOWN-FINDING" | cut -c1-220
done
