#!/usr/bin/env python3
# seedtool.py verify <seed-id> <property> <src-dir-with patch.diff demo.diff notes.md>
#   confirms in a scratch worktree that the seeded change compiles, keeps the pinned suite green, and that the
#   demonstration fails with it and passes without it; then copies it to /verif/seeded/<seed-id>/.
# seedtool.py run <seed-id> [check ids...]
#   applies the patch to /repo, runs the given checks (default: the property's), undoes the patch, records results.
import sys, os, subprocess, json, shutil, re, time

VERIF = os.path.dirname(os.path.abspath(__file__))
SCR = '/tmp/seedverify'


def sh(cmd, cwd=None, env=None, timeout=3600):
    p = subprocess.run(cmd, shell=True, cwd=cwd, env=env, stdout=subprocess.PIPE, stderr=subprocess.STDOUT, text=True, timeout=timeout)
    return p.returncode, p.stdout


def test_summary(out):
    passed = sum(int(x) for x in re.findall(r'test result: \w+\. (\d+) passed', out))
    failed = sum(int(x) for x in re.findall(r'test result: \w+\. \d+ passed; (\d+) failed', out))
    names = re.findall(r'^test (\S+) \.\.\. FAILED', out, re.M)
    return passed, failed, names


def verify(sid, prop, src):
    wt = os.path.join(SCR, sid)
    os.makedirs(SCR, exist_ok=True)
    sh('git -C /repo worktree remove --force %s' % wt)
    rc, out = sh('git -C /repo worktree add --detach %s HEAD' % wt)
    env = dict(os.environ, CARGO_TARGET_DIR=os.path.join(SCR, 'target'), CARGO_NET_OFFLINE='true')
    res = {'seed': sid, 'property': prop}
    try:
        rc, out = sh('git apply %s' % os.path.join(src, 'patch.diff'), cwd=wt)
        assert rc == 0, 'patch does not apply: ' + out
        rc, out = sh('cargo test --workspace --no-fail-fast --offline 2>&1', cwd=wt, env=env)
        p, f, names = test_summary(out)
        res['with_patch_suite'] = {'passed': p, 'failed': f, 'failed_tests': names}
        assert f == 0 and p == 142, 'pinned suite not green with the patch: %d passed %d failed %s' % (p, f, names)
        rc, out = sh('git apply %s' % os.path.join(src, 'demo.diff'), cwd=wt)
        assert rc == 0, 'demo does not apply: ' + out
        rc, out = sh('cargo test --workspace --no-fail-fast --offline 2>&1', cwd=wt, env=env)
        p, f, names = test_summary(out)
        res['with_patch_and_demo'] = {'passed': p, 'failed': f, 'failed_tests': names}
        assert f >= 1 and p >= 142, 'demo does not fail with the patch'
        rc, out = sh('git apply -R %s' % os.path.join(src, 'patch.diff'), cwd=wt)
        assert rc == 0, out
        rc, out = sh('cargo test --workspace --no-fail-fast --offline 2>&1', cwd=wt, env=env)
        p2, f2, names2 = test_summary(out)
        res['demo_without_patch'] = {'passed': p2, 'failed': f2, 'failed_tests': names2}
        assert f2 == 0 and p2 > 142, 'demo does not pass without the patch'
        res['confirmed'] = True
    except AssertionError as e:
        res['confirmed'] = False
        res['error'] = str(e)
    finally:
        sh('git -C /repo worktree remove --force %s' % wt)
    dst = os.path.join(VERIF, 'seeded', sid)
    if res['confirmed']:
        os.makedirs(dst, exist_ok=True)
        for fn in ('patch.diff', 'demo.diff', 'notes.md'):
            if os.path.exists(os.path.join(src, fn)):
                shutil.copy(os.path.join(src, fn), os.path.join(dst, fn))
        meta = {'seed': sid, 'breaks_property': prop, 'confirmed_by': 'seedtool.py verify (scratch worktree of /repo HEAD, shared target dir, removed afterwards)',
                'confirmation': res, 'needs_to_manifest': '', 'checks_run': {}}
        if os.path.exists(os.path.join(dst, 'meta.json')):
            old = json.load(open(os.path.join(dst, 'meta.json')))
            meta['needs_to_manifest'] = old.get('needs_to_manifest', '')
            meta['checks_run'] = old.get('checks_run', {})
        json.dump(meta, open(os.path.join(dst, 'meta.json'), 'w'), indent=1)
    print(json.dumps(res, indent=1))
    return res['confirmed']


def run_copy(sid, checks, tier='quick'):
    """like run, but on a patched copy of /repo (VERIF_REPO): /repo itself is not touched, so several can run at once"""
    dst = os.path.join(VERIF, 'seeded', sid)
    meta = json.load(open(os.path.join(dst, 'meta.json')))
    if not checks:
        checks = [meta['breaks_property']]
    cp = '/tmp/seedrepo/' + sid
    sh('rm -rf %s; mkdir -p %s' % (cp, cp))
    rc, out = sh('git -C /repo archive HEAD | tar -x -C %s' % cp)
    assert rc == 0, out
    rc, out = sh('patch -p1 -s -d %s < %s' % (cp, os.path.join(dst, 'patch.diff')))
    assert rc == 0, out
    env = dict(os.environ, VERIF_REPO=cp)
    try:
        for c in checks:
            t0 = time.time()
            rc, out = sh('./check %s --tier %s 2>&1' % (c, tier), cwd=VERIF, env=env, timeout=14400)
            record(meta, c, rc, out, t0, tier)
    finally:
        sh('rm -rf %s' % cp)
    # meta.json may be written by parallel runs of *other* seeds only (one file per seed)
    json.dump(meta, open(os.path.join(dst, 'meta.json'), 'w'), indent=1)


def record(meta, c, rc, out, t0, tier='quick'):
    lines = [l for l in out.split('\n') if re.search(r'VIOLATION|tier=|ENCODER|UNKNOWN|GAP|VACUITY|UNAVAILABLE', l)]
    viol = [l for l in lines if l.startswith('VIOLATION')]
    claims = sorted(set(re.findall(r'obligation=(\S+) claim=(.*?) site=(\S+)', out)))
    key = c if tier == 'quick' else '%s/%s' % (c, tier)
    meta['checks_run'][key] = {'exit': rc, 'violations': len(viol), 'detected': rc == 1 and len(viol) > 0,
                               'claims_violated': [{'obligation': o, 'claim': cl, 'site': s} for o, cl, s in claims][:12],
                               'other_lines': [l[:200] for l in lines if not l.startswith('VIOLATION')][:8], 'wall_s': round(time.time() - t0)}
    print(c, 'exit', rc, 'violations', len(viol), [s for _, _, s in claims][:6])


def run(sid, checks):
    dst = os.path.join(VERIF, 'seeded', sid)
    meta = json.load(open(os.path.join(dst, 'meta.json')))
    if not checks:
        checks = [meta['breaks_property']]
    rc, out = sh('git -C /repo status --short')
    assert out.strip() == '', '/repo not clean: ' + out
    rc, out = sh('git -C /repo apply %s' % os.path.join(dst, 'patch.diff'))
    assert rc == 0, out
    try:
        for c in checks:
            t0 = time.time()
            rc, out = sh('./check %s --tier quick 2>&1' % c, cwd=VERIF, timeout=7200)
            lines = [l for l in out.split('\n') if re.search(r'VIOLATION|tier=|ENCODER|UNKNOWN|GAP|VACUITY|UNAVAILABLE', l)]
            viol = [l for l in lines if l.startswith('VIOLATION')]
            claims = sorted(set(re.findall(r'obligation=(\S+) claim=(.*?) site=(\S+)', out)))
            meta['checks_run'][c] = {'exit': rc, 'violations': len(viol), 'detected': rc == 1 and len(viol) > 0,
                                     'claims_violated': [{'obligation': o, 'claim': cl, 'site': s} for o, cl, s in claims][:12],
                                     'other_lines': [l[:200] for l in lines if not l.startswith('VIOLATION')][:8], 'wall_s': round(time.time() - t0)}
            print(c, 'exit', rc, 'violations', len(viol), [s for _, _, s in claims][:6])
    finally:
        sh('git -C /repo checkout -- .')
    json.dump(meta, open(os.path.join(dst, 'meta.json'), 'w'), indent=1)


if __name__ == '__main__':
    if sys.argv[1] == 'verify':
        ok = verify(sys.argv[2], sys.argv[3], sys.argv[4])
        sys.exit(0 if ok else 1)
    elif sys.argv[1] == 'run':
        run(sys.argv[2], sys.argv[3:])
    elif sys.argv[1] == 'runcopy':
        run_copy(sys.argv[2], sys.argv[3:])
